"""C14 — Python module and virtual interface agree with the typed C++ interface."""
import json
import os
import re
import struct
import sys
import sysconfig

from vlib import flow, lean, repo, stream
from vlib.common import REPO, VERIF, SCRATCH, log, sha
from vlib.common import run as sh

MANIFEST = {
    "text": "Lean theorems over a faithful model of both tokenisers (util::TokenIter<BoolCharacter,true> over the regenerated "
            "kSpaces table applied to the bytes before the first NUL, and CPython's bytes.split()) and of the scoring folds of "
            "python/kenlm.pyx / python/score_sentence.cc over an abstract per-word scoring function with a law-free accumulation "
            "(float32 + in code order): the splitters agree on every NUL-free byte string, score = left fold of the full_scores "
            "probabilities = the stateful-API fold, fast path = slow path, perplexity's word count = number of scored tokens, the "
            "void* facade is the typed model; with a proved NUL witness for the unrestricted statement.  Tied to the code by the "
            "regenerated kSpaces table, by running the real score_sentence.cc through a recording model, by the freshly built "
            "extension (score, full_scores, perplexity, BaseScore, BaseFullScore, in; four bos/eos combinations; ARPA and every "
            "binary type; every load method) against the typed C++ classes folded along the Lean driver's plan, and by model-"
            "independent oracles (float32 fold of full_scores, stateful fold, bin/query -v word -v sentence, perplexity formula).",
    "note": "Trusted: Lean kernel + propext/Classical.choice/Quot.sound; statements in lean/Properties/C14.lean; Cython's "
            "translation kenlm.pyx -> kenlm.cpp (checked textually for staleness only); CPython's bytes.split and float pow; "
            "harness/driver/comparator.  Known finding: sentences containing 0x00 (fast path and Index(char*) truncate at NUL).",
    "technique": "Lean 4 proof (induction over an executable model) + differential correspondence with the real code",
}

REQUIRED = ["KV.C14.split_agree", "KV.C14.score_sum", "KV.C14.fast_eq_slow", "KV.C14.stateful_eq",
            "KV.C14.perplexity_def", "KV.C14.facade_identity", "KV.C14.split_nul_witness", "KV.C14.query_eq",
            "KV.C14.facade_sentence", "KV.C14.table_agree", "KV.C14.whitespace_irrelevant", "KV.C14.oov_flags",
            "KV.C14.split_normal_form"]

COMBOS = ["TT", "TF", "FT", "FF"]
PY_SPACES = b" \t\n\r\x0b\x0c"
KEY_FAST = "nul-in-sentence-fastpath"
KEY_INDEX = "nul-in-word-index-truncation"


# ------------------------------------------------------------------------------ float32 helpers
def f32(x):
    return struct.unpack("<f", struct.pack("<f", x))[0]


def bits2f(b):
    return struct.unpack("<f", struct.pack("<I", b))[0]


def f2bits(x):
    return struct.unpack("<I", struct.pack("<f", x))[0]


def fold32(bits):
    """total = 0.0f; for p: total += p  — float32 accumulation in order.  The double sum of two floats rounded to
    float32 equals the float32 sum (53 >= 2*24+2), so this reproduces the C loop exactly."""
    t = 0.0
    for b in bits:
        t = f32(t + bits2f(b))
    return t


def tol(bits):
    """the property's float32 tolerance for a sum of k terms: (k+1) * 2^-23 * sum |term|"""
    return (len(bits) + 1) * 2.0 ** -23 * sum(abs(bits2f(b)) for b in bits) + 1e-30


# ------------------------------------------------------------------------------ building the extension
def build_extension(bdir):
    """kenlm.so from $REPO/python/kenlm.cpp + score_sentence.cc + the static libs of the tools build."""
    out = os.path.join(SCRATCH, "build", repo.tree_hash(), "pyext")
    os.makedirs(out, exist_ok=True)
    so = os.path.join(out, "kenlm.so")
    if os.path.exists(so):
        return True, out, "cached"
    inc = sysconfig.get_paths()["include"]
    tmp = so + ".tmp%d" % os.getpid()
    cmd = ["g++", "-std=c++11", "-O1", "-w", "-fPIC", "-shared", "-DKENLM_MAX_ORDER=6", "-DHAVE_ZLIB", "-DHAVE_BZLIB",
           "-DHAVE_XZLIB", "-I", REPO, "-I", inc,
           os.path.join(REPO, "python", "kenlm.cpp"), os.path.join(REPO, "python", "score_sentence.cc"),
           os.path.join(bdir, "lib", "libkenlm.a"), os.path.join(bdir, "lib", "libkenlm_util.a"),
           "-lz", "-lbz2", "-llzma", "-lrt", "-pthread", "-o", tmp]
    rc, o, e = sh(cmd, timeout=900)
    if rc != 0:
        return False, out, "python extension does not build from the current tree:\n" + (o + e)[-3000:]
    os.replace(tmp, so)
    return True, out, "built"


def staleness():
    """kenlm.cpp is Cython *output*; no Cython here.  Every `/* "kenlm.pyx":N ... */` block of kenlm.cpp must quote
    kenlm.pyx verbatim at the stated line numbers, and every non-blank .pyx line outside docstrings must be quoted."""
    try:
        cpp = open(os.path.join(REPO, "python", "kenlm.cpp"), encoding="utf-8", errors="replace").read()
        pyx = open(os.path.join(REPO, "python", "kenlm.pyx"), encoding="utf-8", errors="replace").read().split("\n")
    except OSError as ex:
        return ["cannot read python/kenlm.pyx / kenlm.cpp: %s" % ex], 0
    blocks = re.findall(r'/\* "kenlm\.pyx":(\d+)\n(.*?)\n \*/', cpp, re.S)
    problems = []
    covered = set()
    for n, body in blocks:
        n = int(n)
        lines = [l[3:] if l.startswith(" * ") else (l[2:] if l.startswith(" *") else l) for l in body.split("\n")]
        marks = [i for i, l in enumerate(lines) if l.rstrip().endswith("# <<<<<<<<<<<<<<")]
        if len(marks) != 1:
            continue
        for i, l in enumerate(lines):
            ln = n + (i - marks[0])
            txt = re.sub(r"\s*# <<<<<<<<<<<<<<$", "", l).rstrip()
            src = pyx[ln - 1].rstrip() if 1 <= ln <= len(pyx) else None
            covered.add(ln)
            if src != txt and len(problems) < 5:
                problems.append("kenlm.cpp quotes kenlm.pyx:%d as %r but the file has %r (kenlm.cpp not regenerated)" % (ln, txt, src))
    indoc = False
    for i, l in enumerate(pyx):
        was = indoc
        if l.count('"""') % 2 == 1:
            indoc = not indoc
        if l.strip() and (i + 1) not in covered and not (was or indoc or '"""' in l) and not l.strip().startswith("#"):
            # attribute declarations of cdef classes produce no code block: they must be struct members of kenlm.cpp
            m = re.match(r"^\s*cdef\s+(?:public\s+)?([\w.]+)\s*\*?\s*(\w+)\s*$", l)
            if m:
                ctype = {"bint": "int", "bytes": "PyObject *"}.get(m.group(1), m.group(1).split(".")[-1])
                if re.search(r"\b%s\b[\w:\s]*\*?\s*\b%s;" % (re.escape(ctype.split()[0]), re.escape(m.group(2))), cpp):
                    continue
            if len(problems) < 5:
                problems.append("kenlm.pyx:%d %r is not reflected in kenlm.cpp (kenlm.cpp not regenerated)" % (i + 1, l.strip()))
    return problems, len(blocks)


# ------------------------------------------------------------------------------ models
def arpa_truncate(src, dst, order):
    """the ARPA file restricted to n-grams of length <= order (for build_binary -r)"""
    out = []
    keep = True
    cur = 0
    for ln in open(src, "rb").read().split(b"\n"):
        m = re.match(rb"^ngram (\d+)=", ln)
        if m:
            if int(m.group(1)) <= order:
                out.append(ln)
            continue
        m = re.match(rb"^\\(\d+)-grams:", ln)
        if m:
            cur = int(m.group(1))
            keep = cur <= order
        if ln.startswith(b"\\end\\"):
            keep = True
        if keep:
            if cur == order and ln.count(b"\t") == 2 and not ln.startswith(b"\\"):
                ln = ln.rsplit(b"\t", 1)[0]      # the new highest order carries no back-off
            out.append(ln)
    open(dst, "wb").write(b"\n".join(out))


def arpa_order(path):
    return max(int(m) for m in re.findall(rb"^ngram (\d+)=", open(path, "rb").read(), re.M))


def arpa_vocab(path):
    words = []
    sect = False
    for ln in open(path, "rb").read().split(b"\n"):
        if ln.startswith(b"\\1-grams:"):
            sect = True
            continue
        if sect:
            if ln.startswith(b"\\"):
                break
            p = ln.split(b"\t")
            if len(p) >= 2:
                words.append(p[1])
    return words


WEIRD_WORDS = [b"caf\xc3\xa9", b"\xc2\xa0", b"x\xc2\x85y", b"\xe2\x80\x83", b"\xff\xfe", b"a\x85b", b"\xa0", b"q\x1cq",
               b"\x1f", b"\x7f", b"\x01\x02", b"=", b"a=b", b"<unk>x", b"\xe3\x81\x82", b"\x80"]


def make_corpus_arpa(ctx, bindir, wd, idx, order):
    """a small random corpus over a vocabulary with non-ASCII / non-UTF-8 / control-byte words -> lmplz ARPA"""
    rng = ctx.rng
    vocab = [b"w%d" % i for i in range(rng.randrange(4, 10))] + rng.sample(WEIRD_WORDS, rng.randrange(4, 10))
    lines = []
    for _ in range(rng.randrange(30, 80)):
        lines.append(b" ".join(rng.choice(vocab) for _ in range(rng.randrange(1, 9))))
    corpus = os.path.join(wd, "corpus%d.txt" % idx)
    open(corpus, "wb").write(b"\n".join(lines) + b"\n")
    arpa = os.path.join(wd, "rand%d.arpa" % idx)
    rc, o, e = sh("%s -o %d -S 40M --discount_fallback --text %s --arpa %s" % (
        os.path.join(bindir, "lmplz"), order, corpus, arpa), timeout=120)
    if rc != 0 or not os.path.exists(arpa):
        return None, "lmplz failed rc=%s %s" % (rc, e[-500:])
    return arpa, vocab


BINARY_KINDS = [
    ("probing", ["probing"]),
    ("trie", ["trie"]),
    ("trie-array", ["-a", "64", "trie"]),
    ("trie-quant", ["-q", "8", "-b", "8", "trie"]),
    ("trie-quant-array", ["-q", "8", "-b", "8", "-a", "64", "trie"]),
]
EXPECTED_TYPE = {"probing": 0, "rest-probing": 1, "trie": 2, "trie-quant": 3, "trie-array": 4, "trie-quant-array": 5, "arpa": 0}


def make_models(ctx, bindir, wd):
    """[(name, kind, path)] : the two test ARPAs, one random-corpus ARPA, and binaries of every type"""
    models = []
    problems = []
    arpas = [("test", os.path.join(REPO, "lm", "test.arpa")), ("nounk", os.path.join(REPO, "lm", "test_nounk.arpa"))]
    a, v = make_corpus_arpa(ctx, bindir, wd, 0, ctx.rng.choice([2, 3, 4]))
    extra_vocab = []
    if a:
        arpas.append(("rand0", a))
        extra_vocab = v
    else:
        problems.append(v)
    bb = os.path.join(bindir, "build_binary")
    for name, arpa in arpas:
        models.append((name + ".arpa", "arpa", arpa))
        kinds = list(BINARY_KINDS)
        if ctx.tier == "quick" and name != "test":
            kinds = [ctx.rng.choice(BINARY_KINDS), ctx.rng.choice(BINARY_KINDS)]
        for kind, flags in kinds:
            out = os.path.join(wd, "%s.%s.bin" % (name, kind))
            rc, o, e = sh([bb] + flags + [arpa, out], timeout=300)
            if rc != 0:
                problems.append("build_binary %s %s failed rc=%s: %s" % (kind, name, rc, e[-400:]))
                continue
            models.append(("%s.%s" % (name, kind), kind, out))
        # rest-probing: lower-order rest costs from the ARPA restricted to orders 1..n-1
        if name == "test" or ctx.tier == "thorough":
            order = arpa_order(arpa)
            lows = []
            for k in range(1, order):
                p = os.path.join(wd, "%s.low%d.arpa" % (name, k))
                arpa_truncate(arpa, p, k)
                lows.append(p)
            out = os.path.join(wd, "%s.rest-probing.bin" % name)
            rc, o, e = sh([bb, "-r", " ".join(lows), "probing", arpa, out], timeout=300)
            if rc != 0:
                problems.append("build_binary -r %s failed rc=%s: %s" % (name, rc, e[-400:]))
            else:
                models.append(("%s.rest-probing" % name, "rest-probing", out))
    vocab = []
    for _, arpa in arpas:
        vocab += arpa_vocab(arpa)
    return models, sorted(set(vocab) | set(extra_vocab)), problems


# ------------------------------------------------------------------------------ sentence generator
def gen_word(rng, vocab):
    r = rng.random()
    if r < 0.55:
        return rng.choice(vocab)
    if r < 0.65:
        return rng.choice([b"<s>", b"</s>", b"<unk>", b"zzzz", b"Looking", b"on.", b"a=b", b"="])
    if r < 0.80:
        return rng.choice(WEIRD_WORDS)
    if r < 0.90:   # arbitrary non-space, non-NUL bytes (often not UTF-8)
        return bytes(rng.choice([b for b in range(1, 256) if b not in PY_SPACES]) for _ in range(rng.randrange(1, 5)))
    w = rng.choice(vocab)   # a vocabulary word glued to a non-ASCII-whitespace byte that other languages call space
    g = bytes([rng.choice([0x1c, 0x1d, 0x1e, 0x1f, 0x85, 0xa0, 0x08, 0x0e, 0x7f])])
    return rng.choice([w + g, g + w, w + g + rng.choice(vocab)])


def gen_sep(rng):
    r = rng.random()
    if r < 0.45:
        return b" "
    if r < 0.75:
        return bytes([rng.choice(PY_SPACES)])
    return bytes(rng.choice(PY_SPACES) for _ in range(rng.randrange(2, 5)))


def gen_sentence(rng, vocab, nul=False):
    r = rng.random()
    if r < 0.03:
        s = b""
    elif r < 0.08:
        s = bytes(rng.choice(PY_SPACES) for _ in range(rng.randrange(1, 6)))
    else:
        n = rng.choice([1, 1, 2, 2, 3, 3, 4, 5, 6, 8, 12, rng.randrange(1, 40)])
        parts = []
        if rng.random() < 0.3:
            parts.append(gen_sep(rng))
        for i in range(n):
            if i:
                parts.append(gen_sep(rng))
            parts.append(gen_word(rng, vocab))
        if rng.random() < 0.3:
            parts.append(gen_sep(rng))
        s = b"".join(parts)
    if nul:
        k = rng.choice([1, 1, 1, 2, 3])
        for _ in range(k):
            # NUL inside a word, next to a space, leading or trailing
            pos = rng.choice([0, len(s), rng.randrange(0, len(s) + 1), rng.randrange(0, len(s) + 1)])
            s = s[:pos] + b"\x00" + s[pos:]
    return s


def directed_sentences(vocab_words):
    """one sentence per byte value: two vocabulary words glued by that byte — any byte on which the two tokenisers
    (or the regenerated table and the model) could disagree is exercised on every run"""
    a, b = b"looking", b"on"
    out = [a + bytes([c]) + b for c in range(1, 256)]
    out += [b"", b" ", b"looking on a little", b"  looking\ton\x0ba\x0clittle\r\n", b"a little more loin also would",
            b"looking on a little more loin also would consider higher to look good unknownword ."]
    return out


# ------------------------------------------------------------------------------ bin/query
def run_query(bindir, model_path, sentences, sentence_context):
    """bin/query -v word -v sentence on one-line sentences.  Returns list (per sentence) of
    (words [(surface, id, len, prob_bits)], total_bits, oov) or an error string."""
    data = b"".join(s + b"\n" for s in sentences)
    cmd = [os.path.join(bindir, "query"), "-v", "word", "-v", "sentence"] + ([] if sentence_context else ["-n"]) + [model_path]
    rc, o, e = sh(cmd, timeout=600, input=data, binary=True)
    if rc != 0:
        return "query failed rc=%s: %s" % (rc, e[-300:].decode("utf-8", "replace"))
    lines = o.split(b"\n")
    if lines and lines[-1] == b"":
        lines.pop()
    res = []
    for ln in lines:
        items = ln.split(b"\t")
        tail = items.pop()
        m = re.match(rb"^Total: (\S+) OOV: (\d+)$", tail)
        if not m:
            return "cannot parse query line %r" % ln[:200]
        words = []
        for it in items:
            surf, rest = it.rsplit(b"=", 1)
            wid, ln_, prob = rest.split(b" ")
            words.append((surf, int(wid), int(ln_), f2bits(float(prob))))
        res.append((words, f2bits(float(m.group(1))), int(m.group(2))))
    return res


# ------------------------------------------------------------------------------ the run
def parse_fields(line):
    d = {}
    for f in line.split("|"):
        if "=" in f:
            k, v = f.split("=", 1)
            d[k] = v
    return d


def parse_fold(val):
    """'<total>;<bits>/<len>/<oov>,...' -> (total_bits, [[bits,len,oov],...])"""
    tot, _, per = val.partition(";")
    items = []
    if per:
        for it in per.split(","):
            b, l, o = it.split("/")
            items.append([int(b), int(l), bool(int(o))])
    return int(tot), items


class Reporter:
    """The sink of the main run: counts/histograms go to ctx; failures are grouped per class — known findings are
    reported at once, the first failing case of every other class is kept, shrunk at the end and written as one replay."""

    def __init__(self, ctx):
        self.ctx = ctx
        self.seen = {}
        self.found = False
        self.pending = {}     # cls -> (what, model descriptor, sentence, detail)
        self.cov = ctx.cov
        self.rng = ctx.rng

    def count(self, *a, **k):
        self.ctx.count(*a, **k)

    def hist(self, *a, **k):
        self.ctx.hist(*a, **k)

    def sample(self, *a, **k):
        self.ctx.sample(*a, **k)

    def fail(self, cls, what, model, s, detail, key=None):
        n = self.seen.get(cls, 0)
        if key is not None and any(kf.get("key") == key and kf.get("status", "open") == "open" for kf in self.ctx.known):
            self.ctx.violation(what, {}, key=key)
            self.ctx.hist("known." + key, cls)
            return
        self.seen[cls] = n + 1
        self.found = True
        if cls not in self.pending or (s and len(s) < len(self.pending[cls][2])):
            self.pending[cls] = (what, model, s, detail)

    def flush(self, env):
        """shrink (ddmin over the sentence bytes, same model, same failure class) and write the replays"""
        budget = 6
        for cls, (what, model, s, detail) in sorted(self.pending.items()):
            body = {"stream": "python", "class": cls, "model": model, "cases_failing_in_this_class": self.seen.get(cls, 1)}
            small, sdetail = s, detail
            md = env.model_by_name.get(model)
            if s and md is not None and budget > 0 and len(s) > 1:
                budget -= 1

                def fails(bs, _cls=cls, _md=md):
                    col = Collector()
                    evaluate(env, col, [dict(_md)], [bytes(bs)], [], quiet=True)
                    open_keys = {k["key"] for k in env.known if k.get("status", "open") == "open"}
                    hit = [f for f in col.fails if f[0] == _cls and f[5] not in open_keys]
                    if hit:
                        fails.last = hit[0]
                    return bool(hit)
                fails.last = None
                try:
                    res = stream.ddmin(list(s), fails, max_tests=60)
                    if fails.last is not None and len(res) < len(s) and bytes(res) == fails.last[3]:
                        small, sdetail = bytes(res), fails.last[4]
                        body["original_sentence_hex"] = s.hex()
                except Exception as ex:                 # noqa  (shrinking is best effort)
                    body["shrink_error"] = repr(ex)
            body.update({"sentence_hex": small.hex(), "sentence_repr": repr(small)})
            body.update(sdetail)
            body["replay_cmd"] = "VERIF_SEED=%d python3 check.py C14 --tier %s --replay <this file>" % (self.ctx.seed, self.ctx.tier)
            self.ctx.violation(what, body)
        self.pending = {}


class Collector:
    """sink used while shrinking: records failures, counts nothing"""

    def __init__(self):
        self.fails = []
        self.cov = {"samples": [0] * 99}
        import random
        self.rng = random.Random(0)

    def count(self, *a, **k):
        pass

    def hist(self, *a, **k):
        pass

    def sample(self, *a, **k):
        pass

    def fail(self, cls, what, model, s, detail, key=None):
        self.fails.append((cls, what, model, s, detail, key))


class Env:
    pass


def setup(ctx):
    """proof phase + builds.  Returns (problems, env or None)."""
    problems, consts = flow.proof_phase(ctx, "C14", probe="probe_C14.cc", required=REQUIRED, drivers=["drv_C14"])
    driver_ok = not any(p.startswith("lake build failed") or p.startswith("regeneration") for p in problems)
    dexe = lean.driver_path("drv_C14") if driver_ok and os.path.exists(lean.driver_path("drv_C14")) else None

    st_problems, nblocks = staleness()
    ctx.cov["pyx_blocks_checked"] = nblocks
    for p in st_problems:
        problems.append("staleness: " + p)

    ok, bdir, lg = repo.build("tools")
    if not ok:
        problems.append(lg)
        return problems, None
    bindir = os.path.join(bdir, "bin")
    ok, hexe, lg = repo.harness("c14.cc", config="tools", libs=True, extra=[REPO + "/python/score_sentence.cc"])
    if not ok:
        problems.append(lg)
        hexe = None
    ok, extdir, lg = build_extension(bdir)
    if not ok:
        problems.append(lg)
        return problems, None
    # run-private directory outside the tree-keyed build cache: other checks prune that cache (vlib.repo._prune) while
    # this one is still running, so everything used during the run is copied here first
    import shutil
    wd = os.path.join(SCRATCH, "c14-run-%d_%s_%d" % (ctx.seed, ctx.tier, os.getpid()))
    shutil.rmtree(wd, ignore_errors=True)
    os.makedirs(os.path.join(wd, "bin"))
    os.makedirs(os.path.join(wd, "ext"))
    try:
        for t in ("query", "build_binary", "lmplz"):
            shutil.copy2(os.path.join(bindir, t), os.path.join(wd, "bin", t))
        bindir = os.path.join(wd, "bin")
        shutil.copy2(os.path.join(extdir, "kenlm.so"), os.path.join(wd, "ext", "kenlm.so"))
        extdir = os.path.join(wd, "ext")
        if hexe:
            shutil.copy2(hexe, os.path.join(wd, "bin", "c14_harness"))
            hexe = os.path.join(wd, "bin", "c14_harness")
    except OSError as ex:
        problems.append("build products disappeared while being copied (cache pruned by a concurrent check?): %s" % ex)
        shutil.rmtree(wd, ignore_errors=True)
        return problems, None
    env = Env()
    env.dexe, env.hexe, env.extdir, env.bindir, env.wd, env.known = dexe, hexe, extdir, bindir, wd, ctx.known
    return problems, env


def run(ctx):
    problems, env = setup(ctx)
    if env is None:
        flow.report_obligation_failures(ctx, problems, False)
        return
    rep = Reporter(ctx)
    try:
        job_models, all_sents = prepare(ctx, env, problems)
        env.model_by_name = {m["name"]: m for m in job_models}
        evaluate(env, rep, job_models, all_sents, problems)
        rep.flush(env)
    finally:
        import shutil
        shutil.rmtree(env.wd, ignore_errors=True)
    ctx.cov["rule"] = ("one case = (model file, sentence); distinct by (model name, sentence bytes); non-trivial when the sentence "
                       "has >= 2 tokens or contains a non-space whitespace/NUL/non-ASCII byte; every case is evaluated for all "
                       "four bos/eos combinations through score, full_scores, perplexity, the stateful API, `in`, the typed and "
                       "virtual C++ classes and (one-line sentences) bin/query")
    ctx.assumptions += ["Cython's translation kenlm.pyx -> kenlm.cpp (textual staleness test only)",
                        "CPython 3.11 bytes.split / float pow; x86-64 SSE float32 arithmetic (no excess precision)",
                        "stateful API compared only for sentences whose tokens are valid UTF-8 (BaseScore takes str)",
                        "bin/query compared only for sentences without '\\n' (query reads one sentence per line)"]
    flow.report_obligation_failures(ctx, problems, rep.found)


def replay(ctx, path):
    """python3 check.py C14 --replay replays/C14/<hash>.json   (with the VERIF_SEED / --tier recorded in the file, so that
    the same model files are regenerated).  Re-evaluates the recorded sentence on the recorded model (all models if the
    name is unknown); exit 1 iff a violation is reproduced."""
    body = json.load(open(path))
    problems, env = setup(ctx)
    if env is None:
        log("cannot set up: %s" % problems)
        return 2
    try:
        job_models, _ = prepare(ctx, env, problems)
        sel = [m for m in job_models if m["name"] == body.get("model")] or job_models
        s = bytes.fromhex(body.get("sentence_hex", ""))
        col = Collector()
        evaluate(env, col, [dict(m) for m in sel], [s], problems)
        open_keys = {k["key"] for k in env.known if k.get("status", "open") == "open"}
        bad = [f for f in col.fails if f[5] not in open_keys]
        known = sorted({f[5] for f in col.fails if f[5] in open_keys})
        for cls, what, model, sent, detail, key in bad:
            print("REPRODUCED class=%s model=%s sentence=%r: %s %s" % (cls, model, sent, what, json.dumps(detail, default=str)[:600]))
        if known:
            print("known findings hit: %s" % known)
        if problems:
            print("broken obligations: %s" % [p[:300] for p in problems])
        return 1 if (bad or problems) else 0
    finally:
        import shutil
        shutil.rmtree(env.wd, ignore_errors=True)


def prepare(ctx, env, problems):
    """models and sentences of this run"""
    models, vocab, mp = make_models(ctx, env.bindir, env.wd)
    for p in mp:
        problems.append("model preparation: " + p)
    vocab = [w for w in vocab if w not in (b"<s>",)]
    n_rand = 500 if ctx.tier == "quick" else 6000
    n_nul = 120 if ctx.tier == "quick" else 1200
    sents = directed_sentences(vocab)
    sents += [gen_sentence(ctx.rng, vocab) for _ in range(n_rand)]
    nul_sents = [b"looking\x00on a little", b"\x00", b"a\x00", b"\x00a", b"looking on\x00 a little", b"a\x00zzz b"]
    nul_sents += [gen_sentence(ctx.rng, vocab, nul=True) for _ in range(n_nul)]
    all_sents = sents + nul_sents
    load_methods = ["LAZY", "POPULATE_OR_LAZY", "POPULATE_OR_READ", "READ"]
    job_models = []
    for i, (name, kind, path) in enumerate(models):
        lm_ = None if kind == "arpa" else load_methods[(i + ctx.seed) % len(load_methods)]
        job_models.append({"path": path, "load_method": lm_, "name": name, "kind": kind})
    # PARALLEL_READ is exposed by kenlm.LoadMethod but util::MapRead rejects it ("Parallel read was removed from this
    # repo"): the documented behaviour is an exception, for every binary type
    pr = [m for m in models if m[1] != "arpa"]
    if pr:
        name, kind, path = pr[ctx.seed % len(pr)]
        job_models.append({"path": path, "load_method": "PARALLEL_READ", "name": name + "@PARALLEL_READ", "kind": kind,
                           "expect_load_error": "Parallel read was removed"})
    if ctx.tier == "thorough":      # every load method on one binary of each kind
        seen = set()
        for name, kind, path in list(models):
            if kind != "arpa" and kind not in seen:
                seen.add(kind)
                for lm_ in load_methods:
                    job_models.append({"path": path, "load_method": lm_, "name": name + "@" + lm_, "kind": kind})
    ctx.cov["models"] = [m["name"] + (":" + m["load_method"] if m["load_method"] else "") for m in job_models]
    return job_models, all_sents


_job_counter = [0]


def evaluate(env, ctx, job_models, all_sents, problems, quiet=False):
    """Run every stream on (models x sentences) and report to the sink `ctx` (Reporter or Collector)."""
    rep = ctx
    dexe, hexe, extdir, bindir, wd = env.dexe, env.hexe, env.extdir, env.bindir, env.wd
    is_nul = [b"\x00" in s for s in all_sents]
    # ---- Lean driver: the plan (tokens under both splitters, fold structure) for every sentence
    plans = None
    if dexe:
        rc, plans, e = stream.run_lines(dexe, ["s " + (s.hex() or "-") for s in all_sents], timeout=600)
        if rc != 0 or len(plans) != len(all_sents):
            problems.append("driver drv_C14 failed rc=%s (%d lines for %d ops): %s" % (rc, len(plans), len(all_sents), e[-300:]))
            plans = None
    pf = [parse_fields(p) for p in plans] if plans else None
    if pf:
        for i, d in enumerate(pf):       # model-internal sanity (also theorems): stateful = slow = full_scores structure
            for c in COMBOS:
                if not (_norm_eos(d[c]) == _norm_eos(d["f" + c]) == _norm_eos(d["st" + c])):
                    problems.append("driver: fold structures differ within the model for %r: %s" % (all_sents[i], plans[i][:300]))
                    break

    # ---- Python extension
    _job_counter[0] += 1
    job = os.path.join(wd, "job%d.json" % _job_counter[0])
    json.dump({"models": job_models, "sentences": [s.hex() for s in all_sents]}, open(job, "w"))
    rc, o, e = sh([sys.executable, os.path.join(VERIF, "checks", "C14_pyharness.py"), extdir, job],
                   timeout=3000, env={"PYTHONDONTWRITEBYTECODE": "1"})
    if rc != 0:
        rep.fail("py-crash", "python harness died (rc=%s) while exercising the freshly built extension" % rc, None, b"",
                 {"stderr": e[-3000:], "stdout_tail": o[-1000:]})
        return
    pyobs = {}
    for ln in o.splitlines():
        d = json.loads(ln)
        if "load_error" in d:
            exp = job_models[d["model"]].get("expect_load_error")
            if exp and exp in d["load_error"]:
                ctx.hist("load", "PARALLEL_READ rejected with an exception (as documented)")
                job_models[d["model"]]["skip"] = True
                continue
            rep.fail("py-load", "kenlm.Model cannot load a model file that build_binary produced / a valid ARPA", job_models[d["model"]]["name"], b"",
                     {"error": d["load_error"], "path": job_models[d["model"]]["path"]})
            continue
        if "sent" in d:
            pyobs[(d["model"], d["sent"])] = d

    # ---- per model: C++ harness (recording ScoreSentence, typed vs virtual along the plan), bin/query
    for mi, md in enumerate(job_models):
        name = md["name"]
        hout = None
        if md.get("skip"):
            continue
        if md.get("expect_load_error"):
            rep.fail("py-load", "kenlm.Model loaded a file with LoadMethod.PARALLEL_READ although the C++ code rejects it", name, b"", {})
            continue
        if hexe:
            ops = ["load " + md["path"]]
            for i, s in enumerate(all_sents):
                ops.append("sent " + (s.hex() or "-"))
                if plans:
                    ops.append("plan " + plans[i])
                toks = s.replace(b"\x00", b" ").split()
                if toks:
                    k = ctx.rng.randrange(1, min(len(toks), 7) + 1)
                    ops.append("forgot " + ",".join(t.hex() for t in toks[:k]))
                else:
                    ops.append("index -")
            rc, hl, e = stream.run_lines(hexe, ops, timeout=1200)
            if rc != 0 or len(hl) != len(ops):
                rep.fail("cxx-crash", "C++ harness died (rc=%s) on the virtual/typed interface" % rc, name, b"",
                         {"stderr": e[-2000:], "ops_tail": ops[max(0, len(hl) - 2):len(hl) + 1]})
            else:
                hout = dict(zip(range(len(ops)), hl))
                m = re.match(r"^ok type=(\d+) ", hl[0])
                if not m:
                    rep.fail("cxx-load", "LoadVirtual / typed class cannot load the model", name, b"", {"harness": hl[0]})
                    hout = None
                else:
                    if int(m.group(1)) != EXPECTED_TYPE[md["kind"]]:
                        rep.fail("type-detect", "model type detected from the file differs from what build_binary was asked to build",
                                 name, b"", {"harness": hl[0], "expected_type": EXPECTED_TYPE[md["kind"]]})
                    if "VMISMATCH" in hl[0]:
                        rep.fail("facade-const", "virtual interface constants differ from the typed class", name, b"", {"harness": hl[0]})
                    ctx.hist("model.type", m.group(1))
        # bin/query on one-line sentences (with and without sentence context); NUL sentences in their own run
        qres = {}
        for group in (False, True):
            idxs = [i for i, s in enumerate(all_sents) if is_nul[i] == group and b"\n" not in s]
            for sc in (True, False):
                r = run_query(bindir, md["path"], [all_sents[i] for i in idxs], sc)
                if isinstance(r, str) or len(r) != len(idxs):
                    rep.fail("query-run", "bin/query failed or returned a different number of sentences", name, b"",
                             {"detail": r if isinstance(r, str) else "%d results for %d sentences" % (len(r), len(idxs))})
                    continue
                for i, x in zip(idxs, r):
                    qres[(i, sc)] = x
        hi = 1
        for i, s in enumerate(all_sents):
            h_sent = h_plan = h_third = None
            if hout is not None:
                h_sent = hout[hi]
                hi += 1
                if plans:
                    h_plan = hout[hi]
                    hi += 1
                h_third = hout[hi]
                hi += 1
            elif hexe:
                pass
            py = pyobs.get((mi, i))
            check_case(ctx, rep, name, s, is_nul[i], pf[i] if pf else None, h_sent, h_plan, h_third, py,
                       qres.get((i, True)), qres.get((i, False)))


def check_case(ctx, rep, name, s, nul, plan, h_sent, h_plan, h_third, py, q_ctx, q_noctx):
    ntok = len(s.split())
    nontrivial = ntok >= 2 or any(c in s for c in b"\t\n\r\x0b\x0c\x00") or any(c >= 0x80 for c in s)
    ctx.count((name, s), nontrivial=nontrivial)
    ctx.hist("tokens", min(ntok, 12))
    ctx.hist("class", "nul" if nul else ("non-utf8" if _not_utf8(s) else ("ws-only/empty" if ntok == 0 else "plain")))
    if len(ctx.cov["samples"]) < 4 and ntok >= 3 and len(s) > 14 and (len(s) + len(ctx.cov["samples"])) % 3 == 0:
        ctx.sample({"model": name, "sentence": repr(s), "score.TT": py.get("score.TT") if py else None,
                    "full.TT": (py.get("full.TT") or [])[:4] if py else None, "plan": (plan or {}).get("TT")})

    def fail(cls, what, detail, key=None):
        rep.fail(cls, what, name, s, detail, key=key)

    if py is None or "error" in py:
        fail("py-exception", "the Python module raised on a byte-string sentence", {"error": (py or {}).get("error", "no output")})
        return

    # ================= model-independent oracles on the Python module =================
    for c in COMBOS:
        full = py["full." + c]
        sc = py["score." + c]
        bits = [x[0] for x in full]
        want = fold32(bits)
        # R1 score == left float32 fold of the per-word scores it yields
        if isinstance(sc, str) or abs(bits2f(sc) - want) > tol(bits):
            fail("score-vs-full", "Model.score differs from the sum of the per-word scores of full_scores (beyond float32 rounding)",
                 {"flags": c, "score": _f(sc), "sum_full_scores": want, "full_scores": [[_f(b), l, o] for b, l, o in full]},
                 key=KEY_FAST if (nul and c == "TT") else None)
        else:
            ctx.hist("score==fold32(full) bitwise", f2bits(want) == sc)
        # R2 the stateful API
        stf = py["stateful"]
        if stf is not None:
            stc = stf[c]
            if stc["fulls"] != full or stc["scores"] != bits or not stc["same_state"]:
                fail("stateful-vs-full", "folding BaseScore/BaseFullScore over the words differs from full_scores",
                     {"flags": c, "stateful": stc, "full_scores": full})
            elif isinstance(sc, str) or abs(bits2f(sc) - fold32(stc["scores"])) > tol(bits):
                fail("stateful-vs-score", "the stateful total differs from Model.score (beyond float32 rounding)",
                     {"flags": c, "score": _f(sc), "stateful_total": fold32(stc["scores"])},
                     key=KEY_FAST if (nul and c == "TT") else None)
    if py["stateful"] is not None:
        ctx.hist("stateful", "compared")
    else:
        ctx.hist("stateful", "skipped: token not UTF-8")
    # R6 defaults are bos=eos=True; str sentences behave as their UTF-8 bytes
    if py["score.default"] != py["score.TT"] or py["full.default"] != py["full.TT"]:
        fail("defaults", "score()/full_scores() defaults differ from bos=True, eos=True", {"py": {k: py[k] for k in ("score.default", "score.TT")}})
    if py["str_same"] is False:
        fail("str-vs-bytes", "a str sentence scores differently from its UTF-8 bytes", {})
    # R4 perplexity = 10 ** (-(average log10 prob including </s>))
    fullTT = py["full.TT"]
    bitsTT = [x[0] for x in fullTT]
    if py["ppl"] != "OverflowError":
        ppl = float.fromhex(py["ppl"])
        avg = -sum(bits2f(b) for b in bitsTT) / max(len(fullTT), 1)
        lo = 10.0 ** (avg - tol(bitsTT) / max(len(fullTT), 1) - 1e-12)
        hi = 10.0 ** (avg + tol(bitsTT) / max(len(fullTT), 1) + 1e-12)
        if not (lo * (1 - 1e-9) <= ppl <= hi * (1 + 1e-9)):
            fail("perplexity", "perplexity is not 10 ** -(average per-word log10 probability including </s>)",
                 {"perplexity": ppl, "expected": 10.0 ** avg, "full_scores": [[_f(b), l, o] for b, l, o in fullTT]},
                 key=KEY_FAST if nul else None)
        elif not isinstance(py["score.TT"], str):
            exact = 10.0 ** (-bits2f(py["score.TT"]) / (len(s.split()) + 1))
            ctx.hist("perplexity == 10**(-score/(n+1)) exactly", exact == ppl)
    # R5 `in` == not OOV
    toks = s.split()
    fw = py["full.FF"]
    if len(fw) != len(toks) or len(py["in"]) != len(toks):
        fail("word-count", "full_scores(bos=False,eos=False) does not yield one entry per whitespace-separated token",
             {"tokens": [t.hex() for t in toks], "full": fw})
    else:
        for t, inn, e in zip(toks, py["in"], fw):
            if inn == e[2]:
                fail("in-vs-oov", "`word in model` disagrees with the OOV flag full_scores reports for the same word",
                     {"word": t.hex(), "in": inn, "oov": e[2]})
                break
    for c in COMBOS:
        want_n = len(toks) + (1 if c[1] == "T" else 0)
        if len(py["full." + c]) != want_n:
            fail("word-count", "full_scores yields a wrong number of entries", {"flags": c, "n": len(py["full." + c]), "expected": want_n})

    # R3 bin/query (sentence context = bos+eos; -n = neither)
    for c, q in (("TT", q_ctx), ("FF", q_noctx)):
        if q is None:
            ctx.hist("query", "skipped (newline in sentence)")
            continue
        qwords, qtotal, qoov = q
        full = py["full." + c]
        qcmp = [[b, l, wid == 0] for (_, wid, l, b) in qwords]
        pcmp = [list(x) for x in full]
        if c == "TT" and pcmp:
            pcmp[-1] = [pcmp[-1][0], pcmp[-1][1], qcmp[-1][2] if qcmp else False]   # </s>: pyx hard-codes oov=False
        key = None
        if nul:
            key = KEY_FAST if c == "TT" else KEY_INDEX
        if qcmp != pcmp:
            fail("query-words", "per-word probability / matched length / OOV flag differ between the Python module and bin/query",
                 {"flags": c, "query": [[w.hex(), i, l, _f(b)] for (w, i, l, b) in qwords], "python": [[_f(b), l, o] for b, l, o in full]}, key=key)
        sc = py["score." + c]
        if isinstance(sc, str) or abs(bits2f(sc) - bits2f(qtotal)) > tol([x[0] for x in full]) + tol([b for (_, _, _, b) in qwords]):
            fail("query-total", "Model.score differs from bin/query's sentence total (beyond float32 rounding)",
                 {"flags": c, "score": _f(sc), "query_total": bits2f(qtotal)}, key=key)
        else:
            ctx.hist("score==query total bitwise", sc == qtotal)
        ctx.hist("query", "compared")

    # ================= correspondence with the Lean model and the C++ typed/virtual classes =================
    if h_sent is not None:
        if "VMISMATCH" in (h_third or ""):
            fail("facade-forgot", "BaseFullScoreForgotState / Index through the virtual interface differ from the typed class", {"harness": h_third})
        m = re.match(r"^fast=(.*) total=(\d+) direct=(\d+)$", h_sent)
        if not m:
            fail("cxx-sent", "unexpected harness output for ScoreSentence", {"harness": h_sent})
        else:
            if m.group(2) != m.group(3):
                fail("recorder", "ScoreSentence through the recording model differs from ScoreSentence on the loaded model",
                     {"harness": h_sent})
            if plan is not None and m.group(1) != plan["fast"]:
                fail("fast-structure", "score_sentence.cc looks up / scores a different word sequence than the model's scoreFast "
                     "(tokeniser over kSpaces up to the first NUL, from <s>, then </s>)",
                     {"implementation": m.group(1), "lean_model": plan["fast"]})
            # the fast path seen from Python
            if py["score.TT"] != int(m.group(2)):
                if isinstance(py["score.TT"], str) or abs(bits2f(py["score.TT"]) - bits2f(int(m.group(2)))) > 1e-4:
                    fail("py-fast-vs-cxx", "Model.score(bos=True,eos=True) differs from lm::base::ScoreSentence on the same bytes",
                         {"python": _f(py["score.TT"]), "cxx": bits2f(int(m.group(2)))})
    if plan is not None:
        if py["split"] != ([] if plan["py"] == "-" else plan["py"].split(",")):
            fail("pysplit", "the model's pySplit differs from CPython's bytes.split()", {"python": py["split"], "lean_model": plan["py"]})
        if int(plan["ppl"]) != len(s.split()) + 1:
            fail("ppl-words", "model's perplexity word count differs", {"lean_model": plan["ppl"]})
    if plan is not None and plan.get("q", "x") != "x":
        for q, with_ctx in ((q_ctx, True), (q_noctx, False)):
            if q is None:
                continue
            surf = [w.hex() for (w, _, _, _) in q[0]]
            want = ([] if plan["q"] == "-" else plan["q"].split(",")) + (["3c2f733e"] if with_ctx else [])
            if surf != want:
                fail("query-structure", "bin/query reads a different word sequence from the line than the model's queryWords "
                     "(ReadWordSameLine over kSpaces; </s> appended with sentence context)", {"query": surf, "lean_model": want})
    if h_plan is not None:
        if "VMISMATCH" in h_plan:
            fail("facade", "the virtual interface (BaseFullScore/BaseScore/BeginSentenceWrite/NullContextWrite/BaseVocabulary) "
                 "returns something different from the typed class it wraps", {"harness": h_plan, "plan": plan})
        hp = parse_fields(h_plan.split(" VMISMATCH")[0])
        for c in COMBOS:
            tot, items = parse_fold(hp[c])
            full = py["full." + c]
            exp_items = [list(x) for x in items]
            if c[1] == "T" and exp_items:
                exp_items[-1][2] = False
            if full != exp_items:
                fail("py-vs-typed-words", "full_scores differs from the typed C++ FullScore folded along the model's plan "
                     "(words of bytes.split(), each looked up up to its first NUL)",
                     {"flags": c, "python": [[_f(b), l, o] for b, l, o in full], "typed": [[_f(b), l, o] for b, l, o in exp_items],
                      "plan": plan[c]})
            want_tot, want_items = (tot, items)
            if c == "TT":
                want_tot, want_items = parse_fold(hp["fast"])
            sc = py["score." + c]
            if isinstance(sc, str) or abs(bits2f(sc) - bits2f(want_tot)) > tol([x[0] for x in want_items]):
                fail("py-vs-typed-total", "Model.score differs from the typed C++ Score folded along the model's plan",
                     {"flags": c, "python": _f(sc), "typed": bits2f(want_tot), "plan": plan["fast" if c == "TT" else c]})
            else:
                ctx.hist("score==typed fold bitwise", sc == want_tot)


def _norm_eos(plan):
    """a literal `</s>` token is looked up by name and yields EndSentence(): same query as E"""
    head, _, ws = plan.partition(":")
    return head + ":" + ",".join("E" if w == "3c2f733e" else w for w in ws.split(","))


def _not_utf8(s):
    try:
        s.decode("utf-8")
        return False
    except UnicodeDecodeError:
        return True


def _f(b):
    return b if isinstance(b, str) else bits2f(b)
