"""C07 — Estimation result is independent of memory budget, block sizes and scheduling."""
import json
import os
import shutil

from vlib import flow
from vlib.common import REPO, SCRATCH, log
from checks import corpusgen
from checks import C05_lib as L
from checks import C07_lib as M

MANIFEST = {
    "text": "Lean model of the CorpusCount Writer (per-block dedupe table, carry of the (N-1)-word context across the block "
            "boundary, table reset, AddUnigramWord) with the block capacity as a free parameter; theorems by induction over the "
            "token stream: for every capacity the blocks hold exactly the order-N occurrences of the corpus (per-n-gram totals, "
            "key set, distinct n-grams per block, positive counts, full blocks), hence the sorted+combined table is the "
            "capacity-free countFull of C05's pipeline model (count_block_indep, count_combine_spec); lmplz_indep composes this "
            "with the external sort (C16), chain scheduling (C17) and vocabulary growth (C20) taken as explicit hypotheses.  "
            "Tie: the real bin/lmplz is run on generated corpora under a grid of -S (from the smallest accepted value, found by "
            "bisection, to 1G), --sort_block, --minimum_block, --block_count, --vocab_estimate, -T, CPU affinity / priority "
            "wrappers and plain repetitions; all --arpa bytes and all --intermediate files of one (corpus, modelling options) "
            "must be byte-identical, rejected configurations are compared as error classes, and the common ARPA is compared "
            "with the independent Python reference of the Kneser-Ney definition.",
    "note": "Trusted: Lean kernel + propext/Classical.choice/Quot.sound; statements in lean/Properties/C07.lean incl. the "
            "hypotheses h_sort/h_chain/h_vocab of lmplz_indep (discharged by C16/C17/C20, not here); the comparator and "
            "generators of checks/C07.py; thread schedules are chosen by the OS (perturbed by affinity/priority and "
            "repetition, not enumerated); the memory-splitting heuristics of pipeline.cc are covered by quantifying over "
            "all capacities, not modelled.",
    "technique": "Lean 4 proof (invariant over the token stream, all block capacities) + metamorphic differential runs of the real tool",
}

REQUIRED = ["KV.C07.count_block_indep", "KV.C07.lmplz_indep", "KV.C07.lmplz_indep_final",
            "KV.C07.collapse_partition_indep", "KV.C07.prune_partition_indep",
            "KV.C07.collapse_marks_everywhere", "KV.C07.collapse_marked_partition_indep",
            "KV.C07.collapse_without_remark_depends_on_blocks",
            "KV.C07.lmplz_indep_vocab", "KV.C07.sort_hyp_discharged", "KV.C07.sort_hyp_discharged_code",
            "KV.C07.count_blocks_nodup", "KV.C07.chain_stream_deterministic",
            "KV.C07.lmplz_eq_spec_discharged", "KV.C07.lmplz_indep_discharged",
            "KV.C07.chain_stage_stream", "KV.C07.mergeRight_partition", "KV.C07.mergeRightUnigram_partition",
            "KV.C07.single_chain_stages", "KV.C07.lmplz_indep_final2",
            "KV.C07.addRight_stream", "KV.C07.adder_prefix_monotone", "KV.C07.adder_fanin_delivers",
            "KV.C07.mergeRight_two_chains", "KV.C07.countsOfCounts_perm", "KV.C07.discounts_barrier_indep",
            "KV.C07.fanin_delivers", "KV.C07.barrier_indep", "KV.C07.lmplz_indep_final3",
            "KV.C07.sort_read_twice_same", "KV.C07.step3_order_delivers", "KV.C07.step3_delivers",
            "KV.C07.lmplz_indep_final4"]

OKISH = ("ok", "config")


def variants(case):
    """The two output kinds of one corpus: (label, case, intermediate?).  `--intermediate` forces
    `--renumber`; renumbering together with unigram pruning / --limit_vocab_file is a known defect of
    the tree (PruneNGramStream does not move the special unigrams; C05/C06), so those options are
    dropped there.  --discount_fallback always, so tiny corpora are accepted."""
    a = dict(case)
    # C07 is about accepted runs: an option vector ParsePruning refuses (C06 covers those) is dropped,
    # unusual spellings are normalised to the thresholds they mean
    pcls, thr = L.parse_prune(a)
    if a["prune"] is not None:
        a["prune"] = None if pcls != "ok" else [L.parse_u64(t) for t in a["prune"]]
    if a["fallback"] is None:
        a["fallback"] = "default"
    uni = (a["prune"] is not None and a["prune"][0] > 0) or a["limit"] is not None
    if uni:
        a["renumber"] = False
    b = dict(a)
    b["renumber"] = True
    b["limit"] = None
    if b["prune"] is not None:
        b["prune"] = [0] + list(b["prune"][1:])
    return [("arpa", a, False), ("inter", b, True)]


def known_key(case):
    """Input class of the known finding `collapse-stream-past-end`: the highest order has a prune
    threshold > 0 or --limit_vocab_file is given.  Then CollapseStream::operator++ (adjust_counts.cc)
    evaluates / marks the record one past the end of the last block when the stream ends: SIGSEGV via
    prune_words_[garbage], or a stray Mark() on the first record of the neighbouring block of the chain
    (a wrongly pruned n-gram: different bytes, back-off mismatch aborts), depending on block size and
    timing.  Everything outside this class is reported."""
    hi = case["prune"] is not None and case["prune"][-1] > 0
    return "collapse-stream-past-end" if (hi or case["limit"] is not None) else None


def replay_obj(case, t0, t1, diff, kind):
    name, off = diff
    return {"stream": "lmplz-config", "output_kind": kind,
            "corpus": case["corpus"].decode("latin-1"), "corpus_encoding": "latin-1",
            "order": case["order"], "prune": case["prune"],
            "limit_vocab": None if case["limit"] is None else case["limit"].decode("latin-1"),
            "modelling_args": L.lmplz_args(case, mem="<S>")[4:],
            "command_a": M.cmdline(t0), "command_b": M.cmdline(t1),
            "differing_file": name, "first_differing_offset": off,
            "size_a": None if t0["files"].get(name) is None else len(t0["files"][name]),
            "size_b": None if t1["files"].get(name) is None else len(t1["files"][name]),
            "around_a": M.context(t0["files"].get(name), max(off, 0)),
            "around_b": M.context(t1["files"].get(name), max(off, 0)),
            "how": "write `corpus` (latin-1) to the --text file of both commands, run them, cmp the outputs"}


def check_reference(ctx, case, arpa, kind):
    """The common ARPA against the set-based definition (C05's oracle).  Deviating discounts are C05's
    business: histogram only."""
    ref = L.reference(case)
    if ref["cls"] != "ok":
        ctx.hist("c05", "reference-" + ref["cls"])
        return None
    header, tg, probs = L.parse_arpa(arpa)
    if probs:
        return "malformed ARPA: " + probs[0]
    return ref, header, tg


def one_corpus(ctx, wrappers, case0, wd, n_cfg, n_rep, label, timeout=120):
    """All configurations x both output kinds of one corpus.  Returns True if a violation was reported."""
    found = False
    ntok = M.token_count(case0["corpus"])
    for kind, case, inter in variants(case0):
        big = label == "big"
        cfgs = M.fixed_configs()[:3] if big else M.fixed_configs()
        # the smallest accepted -S for the tiny-block options, and a little above it (not for the large corpora:
        # a run with two records per block takes minutes there; they get 16K..1G, still 10..1000x less than the data)
        smin = None if big else M.smallest_memory(wrappers, case, wd, M.TINY, timeout=timeout)
        if smin is not None:
            ctx.hist("smallest_S", "%d" % (smin // 64 * 64))
            cfgs.append(dict(mem="%db" % smin, opts=list(M.TINY), tkind="dir", sched="plain"))
            cfgs.append(dict(mem="%db" % (smin + ctx.rng.randrange(1, 400)), opts=list(M.TINY) + ["--block_count", "3"],
                             tkind="prefix", sched="plain"))
        while len(cfgs) < n_cfg:
            cfgs.append(M.gen_config(ctx.rng, case["order"],
                                     force=ctx.rng.choice(["16K", "64K", "100K", "256K", "1M", "7M", "64M"]) if big else None))
        ctx.rng.shuffle(cfgs)
        # plain repetitions of one accepted-looking configuration
        rep_of = ctx.rng.choice([c for c in cfgs if M.mem_bytes(c["mem"]) <= (64 << 10)] or cfgs)
        cfgs += [dict(rep_of) for _ in range(n_rep)]
        first = None            # first accepted run
        classes = {}
        for ci, cfg in enumerate(cfgs):
            t = M.run_cfg(wrappers, case, wd, "r", cfg, inter, timeout=timeout)
            cls = t["cls"]
            classes[cls] = classes.get(cls, 0) + 1
            pressure = ntok * (4 * case["order"] + 8) / float(M.mem_bytes(cfg["mem"]))
            ctx.count(("cfg", case["corpus"], repr(L.lmplz_args(case, "x")), kind, cfg["mem"], tuple(cfg["opts"]),
                       cfg["tkind"], cfg["sched"], ci),
                      nontrivial=(cls == "ok" and ntok >= 6))
            ctx.hist("outcome", cls)
            ctx.hist("kind", kind)
            ctx.hist("sched", cfg["sched"])
            ctx.hist("tmp", cfg["tkind"])
            ctx.hist("S", cfg["mem"] if cfg["mem"][-1] != "b" or cfg["mem"] in M.SMALL_MEM else "smallest+")
            if cls == "ok":
                ctx.hist("records_bytes/S", "<0.01" if pressure < 0.01 else "<1" if pressure < 1 else
                         "1-10" if pressure < 10 else "10-100" if pressure < 100 else ">=100")
            if t["tmp_left"]:
                ctx.hist("tmp_left_behind", len(t["tmp_left"]))
            if cls == "config":
                # a rejection depends on the configuration only: same class again
                t2 = M.run_cfg(wrappers, case, wd, "r2", cfg, inter, timeout=timeout)
                if t2["cls"] != "config":
                    ctx.violation("configuration rejected once and %s on repetition" % t2["cls"],
                                  {"stream": "lmplz-config", "corpus": case["corpus"].decode("latin-1"),
                                   "command_a": M.cmdline(t), "command_b": M.cmdline(t2),
                                   "stderr_a": t["stderr"][-600:], "stderr_b": t2["stderr"][-600:]})
                    found = True
                continue
            if cls != "ok":
                # neither success nor a configuration rejection: crash / hang / exception in a worker
                # known class (see known_key): CollapseStream::operator++ touches the record past the end of the last block
                if ctx.violation("lmplz fails (%s) under a memory configuration instead of rejecting it or succeeding" % cls,
                                 {"stream": "lmplz-config", "corpus": case["corpus"].decode("latin-1"),
                                  "corpus_encoding": "latin-1", "command": M.cmdline(t), "class": cls,
                                  "limit_vocab": None if case["limit"] is None else case["limit"].decode("latin-1"),
                                  "stderr": t["stderr"][-1500:]}, key=known_key(case)):
                    found = True
                else:
                    ctx.hist("known", "collapse-stream-past-end:" + cls)
                continue
            if first is None:
                first = (t, cfg)
                continue
            d = M.first_diff(first[0]["files"], t["files"])
            if d is None:
                continue
            # ---- byte difference: shrink the corpus keeping the two configurations different
            c0, c1 = first[1], cfg
            key = known_key(case)
            if key and any(k["key"] == key and k.get("status", "open") == "open" for k in ctx.known):
                ctx.violation("lmplz output bytes depend on the memory configuration / schedule: %s differs at offset %d"
                              % d, replay_obj(case, first[0], t, d, kind), key=key)
                ctx.hist("known", "collapse-stream-past-end:bytes")
                break

            def differs(c):
                x = M.run_cfg(wrappers, c, wd, "s0", c0, inter, timeout=timeout)
                y = M.run_cfg(wrappers, c, wd, "s1", c1, inter, timeout=timeout)
                return x["cls"] == "ok" and y["cls"] == "ok" and M.first_diff(x["files"], y["files"]) is not None
            ctx.notes["byte_differences"] = ctx.notes.get("byte_differences", 0) + 1
            # shrinking costs up to ~120 runs: only for the first two differences of a check run
            small = M.shrink_lines(case, differs) if (ctx.notes["byte_differences"] <= 2 and differs(case)) else case
            x = M.run_cfg(wrappers, small, wd, "s0", c0, inter)
            y = M.run_cfg(wrappers, small, wd, "s1", c1, inter)
            d2 = M.first_diff(x["files"], y["files"]) if x["cls"] == y["cls"] == "ok" else None
            if d2 is None:      # not reproducible on repetition (scheduling dependent): report the original pair
                small, x, y, d2 = case, first[0], t, d
            ctx.violation("lmplz output bytes depend on the memory configuration / schedule: %s differs at offset %d"
                          % (d2[0], d2[1]), replay_obj(small, x, y, d2, kind))
            found = True
            break
        if first is None:
            ctx.hist("no_accepted_run", kind)
            continue
        ctx.notes["corpora_x_kinds"] = ctx.notes.get("corpora_x_kinds", 0) + 1
        # ---- the common output against the definition
        r = check_reference(ctx, case, first[0]["files"]["arpa"], kind)
        if isinstance(r, str):
            ctx.violation(r, replay_obj(case, first[0], first[0], ("arpa", 0), kind))
            found = True
        elif r is not None:
            ref, header, tg = r
            tstats, tfb = L.parse_statistics(first[0]["stderr"])
            fb_ref = {n for n, (fb, _) in ref["discs"].items() if fb}
            if L.compare_discounts(tstats, ref["discs"]) or fb_ref != tfb:
                ctx.hist("c05", "discounts-deviate")
            else:
                mp, worst = L.compare_model(tg, case["order"], ref["grams"], "definition", errs=ref.get("errs"))
                ctx.notes["worst_log10_dev"] = max(ctx.notes.get("worst_log10_dev", 0.0), worst)
                if mp:
                    ctx.hist("c05", "values-deviate")
                    ctx.violation("the configuration-independent ARPA deviates from the Kneser-Ney definition: " + mp[0][:300],
                                  dict(replay_obj(case, first[0], first[0], ("arpa", 0), kind), findings=mp[:8]))
                    found = True
                else:
                    ctx.hist("c05", "agrees")
    return found


def replay(ctx, path):
    """Re-run the two command lines of a replay file on the current tree; exit 1 iff they still differ."""
    obj = json.load(open(path))
    ok, tools, lg = L.get_tools(["lmplz"], os.path.join(SCRATCH, "c07_replay_%d" % os.getpid(), "bin"))
    if not ok:
        log(lg)
        return 2
    wd = os.path.dirname(os.path.dirname(tools["lmplz"]))
    try:
        import shlex
        import subprocess
        outs = []
        for i, key in enumerate(("command_a", "command_b")):
            a = shlex.split(obj[key])
            a[0] = tools["lmplz"] if os.path.basename(a[0]).startswith("lmplz") else a[0]
            cp = os.path.join(wd, "c.txt")
            open(cp, "wb").write(obj["corpus"].encode("latin-1"))
            ap = os.path.join(wd, "o%d.arpa" % i)
            rest = []
            j = 1
            while j < len(a):
                if a[j] == "--text":
                    rest += ["--text", cp]
                    j += 2
                elif a[j] == "--arpa":
                    rest += ["--arpa", ap]
                    j += 2
                elif a[j] == "-T":
                    d = os.path.join(wd, "t%d" % i)
                    os.makedirs(d, exist_ok=True)
                    rest += ["-T", d + "/"]
                    j += 2
                elif a[j] == "--intermediate":
                    rest += ["--intermediate", os.path.join(wd, "i%d" % i)]
                    j += 2
                elif a[j] == "--limit_vocab_file":
                    lp = os.path.join(wd, "limit")
                    open(lp, "wb").write((obj.get("limit_vocab") or "").encode("latin-1"))
                    rest += ["--limit_vocab_file", lp]
                    j += 2
                else:
                    rest.append(a[j])
                    j += 1
            p = subprocess.run([tools["lmplz"]] + rest, capture_output=True, timeout=600)
            fs = {"arpa": open(ap, "rb").read() if os.path.exists(ap) else None}
            for fn in sorted(os.listdir(wd)):
                if fn.startswith("i%d." % i):
                    fs["inter." + fn.split(".", 1)[1]] = open(os.path.join(wd, fn), "rb").read()
            outs.append((p.returncode, fs))
        d = M.first_diff(outs[0][1], outs[1][1])
        print("replay: rc %s / %s, first difference: %r" % (outs[0][0], outs[1][0], d))
        return 1 if (d is not None or outs[0][0] != outs[1][0]) else 0
    finally:
        shutil.rmtree(wd, ignore_errors=True)


VOCAB_ESTIMATES = [10, 37, 150, 1000, 2500, None]


def vocab_growth(ctx, tools, wd, n_corpora):
    """--vocab_estimate axis with THOUSANDS of word types: the vocabulary table (GrowableVocab over AutoProbing) doubles
    several times with long occupied runs that wrap around the end of the table.  All estimates must give the same
    ARPA bytes as the default (no growth).  Order 1 or 2 keeps a run at a few tens of ms."""
    found = False
    for ci in range(n_corpora):
        rng = ctx.rng
        V = rng.choice([2200, 3000, 3000, 4500, 7000, 12000])
        style = rng.choice(["hex", "w", "mixed"])
        salt = rng.getrandbits(32)
        def word(i):
            if style == "w":
                return b"w%d_%x" % (i, salt & 0xff)
            if style == "hex":
                return b"w%08x" % ((i * 2654435761 + salt) & 0xffffffff)
            return (b"x" * (1 + i % 7)) + b"%d" % (i ^ salt)
        S = V // 3
        sents = [[word(rng.randrange(V)) for _ in range(rng.randint(2, 6))] for _ in range(S)]
        sents += [[word(i) for i in range(j, min(j + 8, V))] for j in range(0, V, 8) if rng.random() < 0.9]
        corpus = b"".join(b" ".join(x) + b"\n" for x in sents)
        types = len({w for x in sents for w in x})
        case = dict(corpus=corpus, order=rng.choice([1, 1, 2]), prune=None, limit=None, interp=True, fallback="default",
                    renumber=rng.random() < 0.3, skip=False, label="vocab V%d" % types)
        base = None
        ctx.hist("vocab.types", types // 1000 * 1000)
        for ve in [None] + [e for e in VOCAB_ESTIMATES if e is not None]:
            extra = [] if ve is None else ["--vocab_estimate", str(ve)]
            t = L.run_lmplz(tools["lmplz"], case, wd, "v", mem="64M", extra=extra, timeout=300)
            ctx.count(("vocab", corpus[:64], len(corpus), ve, case["order"]), nontrivial=True)
            ctx.hist("vocab.class", t["cls"])
            if t["cls"] != "ok":
                ctx.violation("lmplz fails (%s) with --vocab_estimate %s on a corpus of %d word types" % (t["cls"], ve, types),
                              {"stream": "vocab-growth", "corpus": corpus.decode("latin-1"), "order": case["order"],
                               "vocab_estimate": ve, "command": M.cmdline(t), "stderr": t["stderr"][-1500:]})
                found = True
                break
            if base is None:
                base = t
                continue
            if t["arpa"] != base["arpa"]:
                d = M.first_diff({"arpa": base["arpa"]}, {"arpa": t["arpa"]})
                hb, gb, _ = L.parse_arpa(base["arpa"])
                ht, gt, pt = L.parse_arpa(t["arpa"])
                ctx.violation("the ARPA depends on --vocab_estimate (%s vs default) on a corpus of %d word types: header %r vs %r%s" % (
                                  ve, types, hb, ht, ("; " + pt[0]) if pt else ""),
                              {"stream": "vocab-growth", "corpus": corpus.decode("latin-1"), "order": case["order"],
                               "vocab_estimate": ve, "first_difference": d, "commands": [M.cmdline(base), M.cmdline(t)]})
                found = True
                break
    return found


def adder_boundary(ctx, tools, wd, consts, instances):
    """Generator class "huge context at an adder-block boundary": the chain from AddRight to MergeRight has
    adderOutBlockCount blocks of adderOutTotalMemory/adderOutBlockCount bytes holding one BufferEntry (HashBufferEntry
    when the order is pruned) per context.  A context whose entry is the LAST of its block (context number = per-1 mod per
    in context order) and which has very many distinct continuations is still being processed by MergeRight when AddRight,
    which runs up to a whole ring ahead, wants the block back; later contexts keep AddRight busy.  Repeated runs under
    different memory configurations must be byte-identical."""
    try:
        total = int(consts["adderOutTotalMemory"]); nblk = int(consts["adderOutBlockCount"])
        ent = int(consts["bufferEntryBytes"]); hent = int(consts["hashBufferEntryBytes"])
    except (KeyError, ValueError):
        total, nblk, ent, hent = 32768, 2, 8, 16
        ctx.hist("adder.geometry", "defaults (probe constants missing)")
    found = False
    for (pruned, K, rounds) in instances:
        per = (total // nblk) // (hent if pruned else ent)
        k = ctx.rng.choice([1, 1, 2]) if not pruned else 1          # which block boundary
        nfill = k * per - 2                                          # contexts before BIG: <s> + the fillers
        fill = [b"f%d" % i for i in range(nfill)]
        lines = [b" ".join(fill[i:i + 6]) for i in range(0, nfill, 6)]
        lines += [b"BIG x%d" % i for i in range(K)]
        corpus = b"\n".join(lines) + b"\n"
        case = dict(corpus=corpus, order=2, prune=(["0", "1"] if pruned else None), limit=None, interp=True,
                    fallback="default", renumber=False, skip=False, label="adder-boundary per=%d K=%d" % (per, K))
        cfgs = [("512M", []), ("512M", []), ("64M", ["--sort_block", "1M"]), ("200M", ["--block_count", "3"]),
                ("512M", ["--block_count", "8"]), ("100M", ["--sort_block", "256K", "--minimum_block", "4K"]),
                ("1G", [])][:rounds]
        base = None
        for i, (mem, extra) in enumerate(cfgs):
            t = L.run_lmplz(tools["lmplz"], case, wd, "ab%d" % i, mem=mem, extra=extra, timeout=900)
            ctx.count(("adder", per, K, pruned, i, mem, tuple(extra)), nontrivial=True)
            ctx.hist("adder.class", t["cls"])
            if t["cls"] != "ok":
                if t["cls"] != "config":
                    ctx.violation("lmplz fails (%s) on the adder-block-boundary corpus" % t["cls"],
                                  {"stream": "adder-boundary", "generator": {"fillers": nfill, "continuations": K, "pruned": pruned},
                                   "command": M.cmdline(t), "stderr": t["stderr"][-1500:]})
                    found = True
                continue
            if base is None:
                base = t
            elif t["arpa"] != base["arpa"]:
                d = M.first_diff({"arpa": base["arpa"]}, {"arpa": t["arpa"]})
                ctx.violation("repeated runs differ on a corpus with a huge context at an adder-block boundary "
                              "(context number %d of order 2, %d continuations): first difference %r" % (k * per - 1, K, d),
                              {"stream": "adder-boundary", "generator": {"fillers": nfill, "continuations": K, "pruned": pruned,
                               "recipe": "fillers f0..f{n-1} six per line, then K lines 'BIG x<i>'"},
                               "commands": [M.cmdline(base), M.cmdline(t)], "first_difference": d})
                found = True
                break
    return found


def run(ctx):
    problems, consts = flow.proof_phase(ctx, "C07", probe="probe_C07.cc",
                                        probe_flags=['-DREPO_DIR="%s"' % REPO, "-no-pie", "-static-libgcc",
                                                     "-Wl,--unresolved-symbols=ignore-all", "-Wl,-z,lazy"],
                                        required=REQUIRED, drivers=[])
    wd = os.path.join(SCRATCH, "c07_%d" % os.getpid())
    shutil.rmtree(wd, ignore_errors=True)
    os.makedirs(wd)
    found = False
    try:
        ok, tools, lg = L.get_tools(["lmplz"], os.path.join(wd, "bin"))
        if not ok:
            problems.append(lg)
            flow.report_obligation_failures(ctx, problems, False)
            return
        wrappers = M.make_wrappers(tools["lmplz"], os.path.join(wd, "bin"), ctx.rng)
        if ctx.tier == "quick":
            plan = [("small", 2, 12, 3), ("mid", 6, 12, 3)]
        else:
            plan = [("small", 20, 15, 4), ("mid", 40, 15, 5), ("big", 3, 10, 3)]
        for kind, cnt, n_cfg, n_rep in plan:
            for i in range(cnt):
                case = corpusgen.gen_case(ctx.rng, ctx.tier, small=(kind == "small"), big=(kind == "big"))
                if kind == "big" and case["corpus"].count(b"\n") > 6000:
                    # keep the Python reference affordable: 5-6k sentences for two of three, 20k for the rest
                    if i % 3 != 2:
                        case["corpus"] = b"".join(l + b"\n" for l in case["corpus"].split(b"\n")[:6000])
                ctx.hist("corpus", kind)
                ctx.hist("order", case["order"])
                if i < 2:
                    ctx.sample({"stream": "lmplz-config", "label": case["label"], "modelling_args": L.lmplz_args(case, "<S>")[4:],
                                "corpus_head": case["corpus"][:80].decode("latin-1")})
                cwd = os.path.join(wd, "c")
                shutil.rmtree(cwd, ignore_errors=True)
                # n_cfg configurations + n_rep repetitions for each of the two output kinds (see variants)
                if one_corpus(ctx, wrappers, case, cwd, n_cfg, n_rep, kind, timeout=(900 if kind == "big" else 120)):
                    found = True
        # (pruned?, continuations, runs)
        inst = [(False, 120000, 6)] if ctx.tier == "quick" else [(False, 300000, 7), (False, 150000, 6), (True, 300000, 6)]
        if adder_boundary(ctx, tools, os.path.join(wd, "adder"), consts, inst):
            found = True
        vwd = os.path.join(wd, "vocab")
        if vocab_growth(ctx, tools, vwd, 45 if ctx.tier == "quick" else 400):
            found = True
    finally:
        shutil.rmtree(wd, ignore_errors=True)
    ctx.cov["rule"] = ("lmplz-config stream: corpora of the C05 generator (Zipfian vocabularies 3..400 types, repeated sentences, "
                       "empty lines, odd separators, orders 1..6, --prune on higher orders, --limit_vocab_file, "
                       "--interpolate_unigrams, --discount_fallback variants) x two output kinds (--arpa; --intermediate + --arpa, "
                       "renumbered) x configurations: -S from the smallest accepted value (bisection, typically a few hundred "
                       "bytes: one or two records per chain block, spills and multi-pass merges) to 1G, --sort_block 256b..64M, "
                       "--minimum_block 32b..8K, --block_count 0/1/2/3/8/64, --vocab_estimate 0..3e6 (GrowableVocab doubling), "
                       "-T (directory, file prefix, path with a space, /dev/shm), taskset to 1 or 2 CPUs / nice 19, plain "
                       "repetitions.  One evaluation = one run of the tool; non-trivial = accepted run on a corpus of >= 6 tokens; "
                       "distinct by (corpus, modelling options, output kind, configuration, position).  All accepted runs of one "
                       "(corpus, modelling options, kind) are compared byte for byte with the first accepted one.  vocab-growth stream: corpora "
                       "of 2000..12000 word types (three spellings) x --vocab_estimate 10/37/150/1000/2500/default at order 1-2: the "
                       "vocabulary hash table doubles several times with long wrapped runs; ARPA bytes must equal the default run.")
    ctx.assumptions += ["thread interleavings are those the OS produces under the affinity / priority / repetition variants "
                        "(not enumerated; the model-level statement for all schedules is hypothesis h_chain = C17)",
                        "--renumber / --intermediate runs are generated without unigram pruning and without --limit_vocab_file "
                        "(known defect of the tree, C05/C06: PruneNGramStream does not move the special unigrams)",
                        "newline-terminated corpus; --discount_fallback always given",
                        "the comparison with the Kneser-Ney definition is skipped when the tool's discounts deviate from "
                        "Chen-Goodman on the adjusted counts (C05's finding), values within C05_lib.tol_log10"]
    flow.report_obligation_failures(ctx, problems, found)
