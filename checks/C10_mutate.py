"""Structured mutators for the `loader-fuzz` stream (C10).

ARPA side: `arpa_mutants(rng, arpa_bytes, k)` -> list of (kind, bytes).  The valid file is split into
classified lines (preamble / \\data\\ / count / blank / section header / n-gram of order n / \\end\\ / tail) so that
every mutation is aimed at a token class of lm/read_arpa.cc.  Counts are edited only within `MAX_COUNT` so that
the allocation the loader requests stays feasible (the property's quantifier).

Binary side: `bin_layout(b)` recovers the section boundaries of a valid binary file from its header,
`bin_mutants(rng, b, cls, k)` -> list of (kind, bytes, load_class, enumerate).
Every random choice comes from the rng passed in.
"""
import re
import struct

MAX_COUNT = 3000

BROKEN_NUMBERS = [b"nan", b"NaN", b"-NaN", b"inf", b"-inf", b"+inf", b"infinity", b"-Inf", b"1e999", b"-1e999", b"--1", b"", b"-",
                  b".", b"-.", b"1e", b"-1e+", b"-0.5x", b"0x10", b"1,5", b"-1.5.2", b"-1e-999", b"-00.5", b"+.5", b"-5.",
                  b"-1e39", b"-3.5e38", b"-3.4e38", b"1e39", b"-0e0", b"- 1", b"-1 .5", b"\xd9\xa1", b"-1e5000000000",
                  b"-" + b"9" * 50, b"-0." + b"0" * 60 + b"1", b"-1." + b"3" * 900, b"-1E2", b"-1e+2", b"-1e-2", b"+0", b"-.5e1"]

STRAY = [b"\x00", b"\xff", b"\x80", b"\x0b", b"\x0c", b"\r", b"\x1f\x8b", b"\xc3", b"\x7f", b"\t", b" ", b"\n", b"\\", b"#"]


class Line:
    __slots__ = ("raw", "eol", "cls", "n")

    def __init__(self, raw, eol, cls="?", n=0):
        self.raw, self.eol, self.cls, self.n = raw, eol, cls, n


def split_lines(data):
    out = []
    i = 0
    while i < len(data):
        j = data.find(b"\n", i)
        if j < 0:
            out.append(Line(data[i:], b""))
            break
        raw = data[i:j]
        eol = b"\n"
        if raw.endswith(b"\r"):
            raw, eol = raw[:-1], b"\r\n"
        out.append(Line(raw, eol))
        i = j + 1
    return out


def classify(lines):
    state = "pre"
    n = 0
    for ln in lines:
        r = ln.raw
        if state == "pre":
            if r == b"\\data\\":
                ln.cls, state = "data", "counts"
            else:
                ln.cls = "pre"
        elif state == "counts":
            if r.startswith(b"ngram "):
                ln.cls = "count"
                m = re.match(rb"ngram (\d+)=", r)
                ln.n = int(m.group(1)) if m else 0
            elif not r.strip():
                ln.cls, state = "blank", "body"
            else:
                ln.cls = "?"
        elif state == "body":
            m = re.match(rb"^\\(\d+)-grams:$", r)
            if m:
                n = int(m.group(1))
                ln.cls, ln.n = "header", n
            elif r == b"\\end\\":
                ln.cls, state = "end", "tail"
            elif not r.strip():
                ln.cls = "blank"
            else:
                ln.cls, ln.n = "gram", n
        else:
            ln.cls = "tail"
    return lines


def join(lines):
    return b"".join(l.raw + l.eol for l in lines)


def _idx(lines, cls, n=None):
    return [i for i, l in enumerate(lines) if l.cls == cls and (n is None or l.n == n)]


def _adjust_count(lines, n, delta):
    for l in lines:
        if l.cls == "count" and l.n == n:
            m = re.match(rb"ngram (\d+)=(\d+)(.*)$", l.raw, re.S)
            if m:
                v = max(0, int(m.group(2)) + delta)
                l.raw = b"ngram %d=%d" % (n, v) + m.group(3)


def _fields(raw):
    """(prob, sep, words-bytes, backoff or None) of an n-gram line; None if it does not look like one"""
    m = re.match(rb"^(\S+)([\t ])(.*?)(?:\t(\S*))?$", raw, re.S)
    if not m:
        return None
    return m.group(1), m.group(2), m.group(3), m.group(4)


def _copy(lines):
    return [Line(l.raw, l.eol, l.cls, l.n) for l in lines]


def order_of(lines):
    return max([l.n for l in lines if l.cls == "count"] or [0])


# ------------------------------------------------------------------------------------------------
# ARPA mutators: each takes (rng, lines) -> bytes or None (not applicable)

def m_line_delete(rng, L):
    g = _idx(L, "gram")
    if not g:
        return None
    i = rng.choice(g)
    n = L[i].n
    del L[i]
    if rng.random() < 0.5:
        _adjust_count(L, n, -1)
    return join(L)


def m_line_delete_any(rng, L):
    i = rng.randrange(len(L))
    del L[i]
    return join(L)


def m_line_dup(rng, L):
    g = _idx(L, "gram")
    if not g:
        return None
    i = rng.choice(g)
    n = L[i].n
    L.insert(i + (0 if rng.random() < 0.5 else 1), Line(L[i].raw, L[i].eol or b"\n", "gram", n))
    if rng.random() < 0.6:
        _adjust_count(L, n, +1)
    return join(L)


def m_dup_far(rng, L):
    """duplicate an n-gram line at another place of its section, with changed probability, count fixed"""
    g = _idx(L, "gram")
    if not g:
        return None
    i = rng.choice(g)
    n = L[i].n
    same = _idx(L, "gram", n)
    f = _fields(L[i].raw)
    raw = L[i].raw
    if f and rng.random() < 0.7:
        raw = b"-%d.%d" % (rng.randrange(0, 5), rng.randrange(0, 1000)) + f[1] + f[2] + (b"\t" + f[3] if f[3] is not None else b"")
    L.insert(rng.choice(same), Line(raw, b"\n", "gram", n))
    _adjust_count(L, n, +1)
    return join(L)


def m_line_swap(rng, L):
    if len(L) < 3:
        return None
    if rng.random() < 0.5:
        i = rng.randrange(len(L) - 1)
        j = i + 1
    else:
        i, j = rng.randrange(len(L)), rng.randrange(len(L))
    L[i], L[j] = L[j], L[i]
    return join(L)


def m_gram_swap(rng, L):
    g = _idx(L, "gram")
    if len(g) < 2:
        return None
    i, j = rng.sample(g, 2)
    L[i], L[j] = L[j], L[i]
    return join(L)


def m_count_edit(rng, L):
    c = _idx(L, "count")
    if not c:
        return None
    i = rng.choice(c)
    m = re.match(rb"ngram (\d+)=(\d+)$", L[i].raw)
    if not m:
        return None
    v = int(m.group(2))
    k = rng.randrange(12)
    if k == 0:
        nv = b"%d" % (v + rng.randrange(1, 4))
    elif k == 1:
        nv = b"%d" % max(0, v - rng.randrange(1, 4))
    elif k == 2:
        nv = b"0"
    elif k == 3:
        nv = b"%d" % min(MAX_COUNT, v * 2 + 1)
    elif k == 4:
        nv = b"%d" % rng.randrange(0, MAX_COUNT)
    elif k == 5:
        nv = rng.choice([b"", b"x", b" ", b"=", b"-", b"+", b"1e", b"0x"])
    elif k == 6:
        nv = b"%d" % v + rng.choice([b"e", b" ", b"x", b".0", b"\t7", b",5", b"\x00"])
    elif k == 7:
        nv = rng.choice([b" ", b"+", b"0", b"00", b"\t", b"\x0b"]) + b"%d" % v
    elif k == 8:
        nv = b"%d" % (v + 1)
    elif k == 9:
        nv = b"%d" % max(0, v - 1)
    elif k == 10:
        nv = b"18446744073709551616"          # > 2^64-1: stream extraction fails -> "Bad count"
    else:
        nv = b"%d" % (v + 1000)
    L[i].raw = b"ngram " + m.group(1) + b"=" + nv
    return join(L)


def m_count_line_syntax(rng, L):
    c = _idx(L, "count")
    if not c:
        return None
    i = rng.choice(c)
    m = re.match(rb"ngram (\d+)=(\d+)$", L[i].raw)
    if not m:
        return None
    n, v = m.group(1), m.group(2)
    L[i].raw = rng.choice([
        b"ngram  " + n + b"=" + v, b"ngram " + n + b" =" + v, b"ngram " + n + b"= " + v, b"ngram +" + n + b"=" + v,
        b"ngram 0" + n + b"=" + v, b"ngram" + n + b"=" + v, b"Ngram " + n + b"=" + v, b"ngram " + n + b":" + v,
        b"ngram " + n + b"=" + v + b" ", b"ngram " + n + b"=" + v + b"\t", b" ngram " + n + b"=" + v, b"ngram " + n,
        b"ngram -" + n + b"=" + v, b"ngram " + b"%d" % (int(n) + 1) + b"=" + v, b"ngram " + b"%d" % (int(n) + 4294967296) + b"=" + v,
        b"ngram \t" + n + b"=" + v, b"ngram =" + v, b"ngram x=" + v])
    return join(L)


def m_broken_number(rng, L):
    g = _idx(L, "gram")
    if not g:
        return None
    i = rng.choice(g)
    f = _fields(L[i].raw)
    if not f:
        return None
    p, sep, ws, bo = f
    bad = rng.choice(BROKEN_NUMBERS)
    which = rng.random()
    if bo is not None and which < 0.45:
        bo = bad
    elif bo is None and which < 0.2:
        bo = bad                                  # add a (broken) back-off, also on the highest order
    else:
        p = bad
    L[i].raw = p + sep + ws + (b"\t" + bo if bo is not None else b"")
    return join(L)


def m_valid_number_variant(rng, L):
    """numbers that ARE acceptable to the real parser but unusual: exercises accept paths"""
    g = _idx(L, "gram")
    if not g:
        return None
    i = rng.choice(g)
    f = _fields(L[i].raw)
    if not f:
        return None
    p, sep, ws, bo = f
    v = rng.choice([b"-1E0", b"-1e+0", b"-.5", b"-5.", b"-0.50000000000000000000001", b"-1e-1", b"-12345e-4", b"-0", b"0", b"+0",
                    b"-1e-46", b"-2.5", b"-99", b"-0.3010299956639812"])
    if bo is not None and rng.random() < 0.5:
        bo = v
    else:
        p = v
    L[i].raw = p + sep + ws + (b"\t" + bo if bo is not None else b"")
    return join(L)


def m_unknown_word(rng, L):
    g = [i for i in _idx(L, "gram") if L[i].n >= 2]
    if not g:
        return None
    i = rng.choice(g)
    f = _fields(L[i].raw)
    if not f:
        return None
    p, sep, ws, bo = f
    words = ws.split(b" ")
    j = rng.randrange(len(words))
    words[j] = rng.choice([b"zzz_unknown", b"<unk>", b"<UNK>", b"<Unk>", words[j] + b"x", words[j][:-1] or b"q", b"\xff", b"<s>", b"</s>"])
    L[i].raw = p + sep + b" ".join(words) + (b"\t" + bo if bo is not None else b"")
    return join(L)


def m_unigram_word(rng, L):
    g = _idx(L, "gram", 1)
    if not g:
        return None
    i = rng.choice(g)
    f = _fields(L[i].raw)
    if not f:
        return None
    p, sep, ws, bo = f
    ws = rng.choice([b"<unk>", b"<UNK>", b"<s>", b"</s>", ws + b"2", b"", b"a b", ws + b" " + ws, b"\x00", ws[:1] + b"\x00" + ws[1:], b"\xe2\x82"])
    L[i].raw = p + sep + ws + (b"\t" + bo if bo is not None else b"")
    return join(L)


def m_missing_section(rng, L):
    n = order_of(L)
    if n < 1:
        return None
    k = rng.randrange(1, n + 1)
    keep = []
    drop_count = rng.random() < 0.5
    for l in L:
        if l.n == k and l.cls in ("header", "gram"):
            continue
        if drop_count and l.cls == "count" and l.n == k:
            continue
        keep.append(l)
    return join(keep)


def m_missing_marker(rng, L):
    cls = rng.choice(["end", "data", "header", "blank", "end-and-tail"])
    if cls == "end-and-tail":
        e = _idx(L, "end")
        return join(L[:e[0]]) if e else None
    c = _idx(L, cls)
    if not c:
        return None
    del L[rng.choice(c)]
    return join(L)


def m_header_edit(rng, L):
    c = _idx(L, rng.choice(["header", "header", "data", "end"]))
    if not c:
        return None
    i = rng.choice(c)
    r = L[i].raw
    L[i].raw = rng.choice([r + b" ", b" " + r, r[:-1], r + b":", r.replace(b"-grams", b"-gram"), r.upper(), r.replace(b"\\", b"/"),
                           r + b"x", b"\\9-grams:", b"\\0-grams:", r.replace(b"\\", b"\\0", 1), b"\\end\\", b"\\data\\", r + b"\t", b"#" + r])
    return join(L)


def m_crlf(rng, L):
    k = rng.randrange(4)
    for l in L:
        if not l.eol:
            continue
        if k == 0:
            l.eol = b"\r\n"
        elif k == 1 and rng.random() < 0.3:
            l.eol = b"\r\n"
        elif k == 2 and rng.random() < 0.2:
            l.eol = b"\r"                       # lone CR: joins two lines
        elif k == 3 and rng.random() < 0.3:
            l.eol = b"\r\r\n"
    return join(L)


def m_stray_bytes(rng, L):
    data = bytearray(join(L))
    for _ in range(rng.choice([1, 1, 1, 2, 5])):
        pos = rng.randrange(len(data) + 1)
        s = rng.choice(STRAY)
        if rng.random() < 0.5:
            data[pos:pos] = s
        else:
            data[pos:pos + len(s)] = s
    return bytes(data)


def m_stray_in_class(rng, L):
    """a stray byte aimed at a token class: inside a number, inside a word, at a separator"""
    g = _idx(L, "gram")
    if not g:
        return None
    i = rng.choice(g)
    r = bytearray(L[i].raw)
    pos = rng.randrange(len(r) + 1)
    r[pos:pos] = rng.choice(STRAY)
    L[i].raw = bytes(r)
    return join(L)


def m_truncate(rng, L):
    data = join(L)
    k = rng.randrange(7)
    if k == 0:
        cut = rng.randrange(len(data) + 1)
    elif k == 1:                                  # at a line boundary
        offs = [0]
        for l in L:
            offs.append(offs[-1] + len(l.raw) + len(l.eol))
        cut = rng.choice(offs)
    elif k == 2:                                  # just before a newline (last line without newline)
        offs = [m.start() for m in re.finditer(b"\n", data)]
        cut = rng.choice(offs) if offs else 0
    elif k == 3:                                  # right after a tab / space
        offs = [m.end() for m in re.finditer(rb"[\t ]", data)]
        cut = rng.choice(offs) if offs else 0
    elif k == 4:                                  # inside a number / word: after a random non-space byte
        offs = [m.end() for m in re.finditer(rb"[^\s]", data)]
        cut = rng.choice(offs) if offs else 0
    elif k == 5:                                  # inside the trailer
        e = data.rfind(b"\\end\\")
        cut = e + rng.randrange(0, 7) if e >= 0 else len(data) // 2
    else:                                         # inside the count block
        e = data.find(b"\\1-grams:")
        cut = rng.randrange(0, e + 10) if e > 0 else 3
    return data[:cut]


def m_whitespace(rng, L):
    g = _idx(L, "gram")
    if not g:
        return None
    for i in rng.sample(g, min(len(g), rng.choice([1, 1, 3]))):
        f = _fields(L[i].raw)
        if not f:
            continue
        p, sep, ws, bo = f
        k = rng.randrange(10)
        if k == 0:
            ws = ws.replace(b" ", b"  ")
        elif k == 1:
            ws = ws.replace(b" ", b"\t")
        elif k == 2:
            sep = b" " if sep == b"\t" else b"\t"
        elif k == 3:
            sep = sep + rng.choice([b" ", b"\t"])
        elif k == 4:
            p = rng.choice([b" ", b"\t", b"\x0b", b"  "]) + p
        elif k == 5:
            if bo is not None:
                bo = bo + rng.choice([b" ", b"\t", b" \t "])
            else:
                ws = ws + rng.choice([b" ", b"\t"])
        elif k == 6:
            if bo is not None:
                bo = rng.choice([b" ", b"\t"]) + bo
        elif k == 7:
            L[i].raw = p + sep + ws + (b" " + bo if bo is not None else b"")       # space instead of tab before back-off
            continue
        elif k == 8:
            ws = ws.replace(b" ", b"\x0b", 1)        # vertical tab is part of a word for kARPASpaces
        else:
            ws = ws + b"\r"
        L[i].raw = p + sep + ws + (b"\t" + bo if bo is not None else b"")
    return join(L)


def m_blank_lines(rng, L):
    for _ in range(rng.choice([1, 2, 5])):
        i = rng.randrange(len(L) + 1)
        L.insert(i, Line(rng.choice([b"", b" ", b"\t", b"\x0b\x0c", b"#c"]), b"\n", "blank"))
    return join(L)


def m_huge_order(rng, L):
    n = order_of(L)
    c = _idx(L, "count")
    e = _idx(L, "end")
    if not c or not e:
        return None
    target = rng.choice([7, 7, 8, 10, 255, 256, 300])
    extra_counts = [Line(b"ngram %d=%d" % (k, rng.choice([0, 0, 1])), b"\n", "count", k) for k in range(n + 1, target + 1)]
    L[c[-1] + 1:c[-1] + 1] = extra_counts
    if rng.random() < 0.5:
        e = _idx(L, "end")[0]
        secs = []
        for k in range(n + 1, min(target, 12) + 1):
            secs += [Line(b"\\%d-grams:" % k, b"\n", "header", k), Line(b"", b"\n", "blank")]
        L[e:e] = secs
    return join(L)


def m_order_one(rng, L):
    keep = [l for l in L if not (l.n >= 2 and l.cls in ("count", "header", "gram"))]
    return join(keep)


def m_word_count(rng, L):
    g = _idx(L, "gram")
    if not g:
        return None
    i = rng.choice(g)
    f = _fields(L[i].raw)
    if not f:
        return None
    p, sep, ws, bo = f
    words = ws.split(b" ")
    if rng.random() < 0.5 and len(words) > 1:
        del words[rng.randrange(len(words))]
    else:
        words.insert(rng.randrange(len(words) + 1), rng.choice(words))
    L[i].raw = p + sep + b" ".join(words) + (b"\t" + bo if bo is not None else b"")
    return join(L)


def m_move_line_to_other_section(rng, L):
    g = _idx(L, "gram")
    h = _idx(L, "header")
    if not g or len(h) < 2:
        return None
    i = rng.choice(g)
    ln = L[i]
    del L[i]
    _adjust_count(L, ln.n, -1)
    h = _idx(L, "header")
    j = rng.choice(h)
    L.insert(j + 1, ln)
    _adjust_count(L, L[j].n, +1)
    return join(L)


def m_remove_context(rng, L):
    """delete an n-gram (1 < n < order) that is the context or the suffix of a longer one; count fixed"""
    n = order_of(L)
    cand = [i for i in _idx(L, "gram") if 1 <= L[i].n < n]
    if not cand:
        return None
    i = rng.choice(cand)
    k = L[i].n
    del L[i]
    _adjust_count(L, k, -1)
    return join(L)


def m_swap_sections(rng, L):
    h = _idx(L, "header")
    e = _idx(L, "end")
    if len(h) < 2 or not e:
        return None
    a = rng.randrange(len(h) - 1)
    s1, s2 = h[a], h[a + 1]
    s3 = h[a + 2] if a + 2 < len(h) else e[0]
    return join(L[:s1] + L[s2:s3] + L[s1:s2] + L[s3:])


def m_trailing_garbage(rng, L):
    data = join(L)
    return data + rng.choice([b"x\n", b"\x00", b" \n\t\n", b"\\end\\\n", b"-1.0\ta\n", b"\n\n\n", b"\r\n", b"\xff\xfe"])


def m_backoff_on_top(rng, L):
    n = order_of(L)
    g = _idx(L, "gram", n)
    if not g:
        return None
    i = rng.choice(g)
    L[i].raw = L[i].raw + b"\t" + rng.choice([b"0", b"-0", b"0.0", b"-0.5", b"1e-60", b"", b"x", b"-0\t", b"0 "])
    return join(L)


def m_empty_order(rng, L):
    """empty an order: delete every line of one or several sections (highest, a middle one, several trailing ones) and set
    the count to 0 (consistent) or leave / falsify it (inconsistent)"""
    n = order_of(L)
    if n < 2:
        return None
    k = rng.randrange(6)
    if k == 0 or k == 1:
        orders = [n]                                   # the highest order
    elif k == 2 and n >= 3:
        orders = [rng.randrange(2, n)]                 # a middle order
    elif k == 3 and n >= 3:
        orders = list(range(rng.randrange(2, n), n + 1))   # several trailing orders
    elif k == 4:
        orders = list(range(2, n + 1))                 # everything above the unigrams
    else:
        orders = [rng.randrange(2, n + 1)]
    variant = rng.choice(["zero", "zero", "zero", "zero", "keep", "one", "drop-header"])
    out = []
    for l in L:
        if l.cls == "gram" and l.n in orders:
            continue
        if l.cls == "header" and l.n in orders and variant == "drop-header":
            continue
        if l.cls == "count" and l.n in orders and variant != "keep":
            l.raw = b"ngram %d=%d" % (l.n, 1 if variant == "one" else 0)
        out.append(l)
    return join(out)


def m_identity(rng, L):
    return join(L)


ARPA_MUTATORS = [
    ("line-delete", m_line_delete, 3), ("line-delete-any", m_line_delete_any, 2), ("line-dup", m_line_dup, 3),
    ("dup-ngram-far", m_dup_far, 3), ("line-swap", m_line_swap, 2), ("gram-swap", m_gram_swap, 2),
    ("count-edit", m_count_edit, 5), ("count-line-syntax", m_count_line_syntax, 2), ("broken-number", m_broken_number, 6),
    ("number-variant", m_valid_number_variant, 2), ("unknown-word", m_unknown_word, 3), ("unigram-word", m_unigram_word, 3),
    ("missing-section", m_missing_section, 2), ("missing-marker", m_missing_marker, 3), ("header-edit", m_header_edit, 2),
    ("crlf", m_crlf, 2), ("stray-bytes", m_stray_bytes, 4), ("stray-in-gram", m_stray_in_class, 3), ("truncate", m_truncate, 6),
    ("whitespace", m_whitespace, 4), ("blank-lines", m_blank_lines, 1), ("huge-order", m_huge_order, 2), ("order-one", m_order_one, 1),
    ("word-count", m_word_count, 3), ("move-line", m_move_line_to_other_section, 2), ("remove-context", m_remove_context, 4),
    ("swap-sections", m_swap_sections, 1), ("trailing-garbage", m_trailing_garbage, 1), ("backoff-on-top", m_backoff_on_top, 2),
    ("empty-order", m_empty_order, 4), ("identity", m_identity, 1),
]


def arpa_mutants(rng, data, k, two_step=0.15):
    base = classify(split_lines(data))
    names = [m[0] for m in ARPA_MUTATORS]
    fns = {m[0]: m[1] for m in ARPA_MUTATORS}
    weights = [m[2] for m in ARPA_MUTATORS]
    out = []
    tries = 0
    while len(out) < k and tries < 10 * k:
        tries += 1
        kind = rng.choices(names, weights)[0]
        res = fns[kind](rng, _copy(base))
        if res is None:
            continue
        if rng.random() < two_step:               # a second mutation on top (kinds joined by '+')
            kind2 = rng.choices(names, weights)[0]
            res2 = fns[kind2](rng, classify(split_lines(res)))
            if res2 is not None:
                res, kind = res2, kind + "+" + kind2
        out.append((kind, res))
    return out


# ------------------------------------------------------------------------------------------------
# binary files

CLASSES = "PRTAQB"
TYPE_NUM = {"P": 0, "R": 1, "T": 2, "Q": 3, "A": 4, "B": 5}


def bin_layout(b, consts):
    """section boundaries of a valid binary: sanity | fixed | counts | (pad) | vocab+search | strings"""
    S = int(consts["sizeofSanity"])
    F = int(consts["sizeofFixed"])
    order = b[S + int(consts["offOrder"])]
    hdr = ((S + F + 8 * order - 1) // 8 + 1) * 8
    has_vocab = b[S + int(consts["offHasVocab"])] != 0
    strings = len(b)
    if has_vocab:
        k = b.rfind(b"<unk>\x00")
        if k >= 0:
            strings = k
    return {"sanity": S, "fixed": S + F, "counts": S + F + 8 * order, "header": hdr, "strings": strings, "size": len(b),
            "order": order, "has_vocab": has_vocab, "S": S, "F": F}


def bin_mutants(rng, b, cls, k, consts, no_vocab_file=False):
    """-> list of (kind, bytes, load_class, enumerate)"""
    lay = bin_layout(b, consts)
    S = lay["S"]
    oO, oM, oT, oV, oSV = (int(consts[x]) for x in ("offOrder", "offMultiplier", "offModelType", "offHasVocab", "offSearchVersion"))
    out = []

    def edit(kind, off, fmt, val, load=cls, enum=None):
        x = bytearray(b)
        struct.pack_into(fmt, x, off, val)
        out.append((kind, bytes(x), load, rng.random() < 0.5 if enum is None else enum))

    bounds = sorted(set([1, lay["sanity"], lay["fixed"], lay["counts"], lay["header"], lay["strings"], lay["size"],
                         lay["header"] + 8, (lay["header"] + lay["strings"]) // 2]))
    others = [c for c in CLASSES if c != cls]
    for _ in range(k):
        r = rng.random()
        if r < 0.22:
            t = rng.choice(bounds) + rng.choice([-1, 0, 1])
            t = max(0, min(len(b), t))
            out.append(("bin-trunc-boundary", b[:t], cls, rng.random() < 0.5))
        elif r < 0.30:
            out.append(("bin-trunc-random", b[:rng.randrange(len(b) + 1)], cls, rng.random() < 0.5))
        elif r < 0.34:
            out.append(("bin-extend", b + bytes(rng.randrange(256) for _ in range(rng.randrange(1, 20))), cls, rng.random() < 0.5))
        elif r < 0.40:
            x = bytearray(b)
            pos = rng.randrange(0, 52)
            x[pos] ^= 1 << rng.randrange(8)
            out.append(("bin-magic-flip", bytes(x), cls, False))
        elif r < 0.44:
            x = bytearray(b)
            pos = b.find(b"version ") + 8
            x[pos:pos + 1] = rng.choice([b"4", b"6", b"0", b"9", b" ", b"x"])
            out.append(("bin-version", bytes(x), cls, False))
        elif r < 0.48:
            x = bytearray(b)
            x[:52] = (b"mmap lm http://kheafield.com/code incomplete\n" + bytes(52))[:52]
            out.append(("bin-incomplete-magic", bytes(x), cls, False))
        elif r < 0.54:
            pos = rng.randrange(56, S)              # sanity test values (floats, word index, uint64)
            x = bytearray(b)
            x[pos] ^= 1 << rng.randrange(8)
            out.append(("bin-sanity-value", bytes(x), cls, False))
        elif r < 0.62:
            o = rng.choice([2, 3, 4, 5, 6, 7, 8, 255, lay["order"] + 1, max(2, lay["order"] - 1)])
            kind = "bin-order-lower" if o < lay["order"] else ("bin-order-raise" if o > lay["order"] else "bin-order-same")
            edit(kind, S + oO, "<B", o)
        elif r < 0.65:
            edit("bin-order-lt2", S + oO, "<B", rng.choice([0, 1]))
        elif r < 0.73:
            i = rng.randrange(lay["order"])
            off = lay["fixed"] + 8 * i
            v = struct.unpack_from("<Q", b, off)[0]
            nv = rng.choice([v + 1, max(0, v - 1), 0, v * 2, v + 1000, 1 << 32, 1 << 61, (1 << 64) - 1, v // 2, 1])
            edit("bin-count-edit", off, "<Q", nv)
        elif r < 0.79:
            edit("bin-other-type-field", S + oT, "<I", TYPE_NUM[rng.choice(others)])
        elif r < 0.82:
            edit("bin-type-out-of-range", S + oT, "<I", rng.choice([6, 7, 77, 255, 1 << 31, (1 << 32) - 1]))
        elif r < 0.88:
            out.append(("bin-request-other-type", b, rng.choice(others), rng.random() < 0.5))
        elif r < 0.92:
            if rng.random() < 0.2:
                edit("bin-has-vocab-nonbool", S + oV, "<B", rng.choice([2, 255, 128]))
            else:
                edit("bin-has-vocab-flip", S + oV, "<B", 0 if lay["has_vocab"] else 1)
        elif r < 0.95:
            edit("bin-search-version", S + oSV, "<I", rng.choice([0, 1, 2, 9, (1 << 32) - 1]))
        elif r < 0.985:
            edit("bin-multiplier", S + oM, "<I", rng.choice([0x3f800000, 0x3f7fffff, 0x3fa00000, 0x40000000, 0x7f800000, 0xbf800000, 0,
                                                                0x80000000, 0x00000001, 0x3fc00001, 0x3fbfffff, 0x7f7fffff, 0xff800000]))
        elif r < 0.99:
            edit("bin-multiplier-nan", S + oM, "<I", rng.choice([0x7fc00000, 0xffc00000, 0x7f800001]))
        else:
            x = bytearray(b)
            pos = S + rng.choice([1, 2, 3, 13, 14, 15])       # padding bytes of FixedWidthParameters
            x[pos] ^= 0xFF
            out.append(("bin-fixed-padding", bytes(x), cls, rng.random() < 0.5))
    if no_vocab_file:
        out.append(("bin-enumerate-without-vocab", b, cls, True))
    return out


# ------------------------------------------------------------------------------------------------
# two targeted generators (loader control paths the structured mutants of ordinary files rarely reach)

def small_blank_case(rng):
    """A SMALL model (few n-grams per order, so a probing table has only 1-2 spare buckets) of order 3 or 4, closed
    under contexts and suffixes, from which lower-order lines are then deleted (counts repaired): the loader has to
    hallucinate blanks, which compete for the spare buckets (ProbingSizeException path), or misses a context.
    -> (bytes, meta)"""
    N = rng.choice([3, 3, 3, 4])
    words = ["a", "b", "c", "d", "e"][: rng.randrange(2, 6)]
    seqs = []
    for _ in range(rng.randrange(1, 4)):
        L = rng.randrange(N, N + 3)
        s = [rng.choice(words) for _ in range(L)]
        if rng.random() < 0.4:
            s = ["<s>"] + s
        if rng.random() < 0.4:
            s = s + ["</s>"]
        seqs.append(s)
    grams = {n: [] for n in range(1, N + 1)}
    for s in seqs:
        for n in range(1, N + 1):
            for i in range(len(s) - n + 1):
                g = tuple(s[i:i + n])
                if g not in grams[n]:
                    grams[n].append(g)
    uni = [("<unk>",), ("<s>",), ("</s>",)] + [(w,) for w in words]
    grams[1] = uni if rng.random() < 0.8 else [u for u in uni if u != ("<unk>",)]
    deleted = 0
    for n in range(2, N):
        k = rng.choice([0, 1, 1, 2, 3])
        for _ in range(min(k, max(0, len(grams[n]) - 1))):
            del grams[n][rng.randrange(len(grams[n]))]
            deleted += 1
    if rng.random() < 0.3 and len(grams[N]) > 1:
        rng.shuffle(grams[N])
    lines = ["\\data\\"] + ["ngram %d=%d" % (n, len(grams[n])) for n in range(1, N + 1)] + [""]
    for n in range(1, N + 1):
        lines.append("\\%d-grams:" % n)
        for g in grams[n]:
            ln = "-%.2f\t%s" % (rng.uniform(0.1, 3.0), " ".join(g))
            if n < N and rng.random() < 0.6:
                ln += "\t-%.2f" % rng.uniform(0.05, 1.0)
            lines.append(ln)
        lines.append("")
    lines.append("\\end\\")
    data = ("\n".join(lines) + "\n").encode()
    return data, {"order": N, "deleted": deleted, "sizes": [len(grams[n]) for n in range(1, N + 1)]}


TRIE_MIN_SORT_BUFFER = 1048576     # lm/search_trie.cc: std::max<size_t>(config.building_memory, 1048576)


def big_duplicate_cases(rng):
    """A bigram model whose bigram section does not fit the 1 MB minimum sort buffer of the trie builder (12-byte records:
    more than 87381 bigrams => at least two sorted batches are merged), and duplicate-line mutants of it with the two
    copies far apart (different batches => ThrowCombine while temporaries exist), adjacent (same batch) and at random
    positions.  -> list of (kind, bytes)"""
    per_batch = TRIE_MIN_SORT_BUFFER // 12
    V = rng.randrange(297, 312)
    words = ["w%d" % i for i in range(V)]
    pairs = [(a, b) for a in words for b in words]
    want = per_batch + rng.randrange(200, 1500)
    if rng.random() < 0.5:
        rng.shuffle(pairs)
    pairs = pairs[:want]
    head = ["\\data\\", "ngram 1=%d" % (V + 3), "ngram 2=%d", "", "\\1-grams:", "-3.0\t<unk>\t-0.1", "-3.0\t<s>\t-0.1", "-3.0\t</s>\t-0.1"]
    head += ["-3.0\t%s\t-0.1" % w for w in words] + ["", "\\2-grams:"]
    body = ["-2.5\t%s %s" % p for p in pairs]
    tail = ["", "\\end\\", ""]

    def render(b):
        return ("\n".join(head).replace("ngram 2=%d", "ngram 2=%d" % len(b)) + "\n" + "\n".join(b) + "\n" + "\n".join(tail)).encode()

    out = [("big-valid", render(body))]
    i = rng.randrange(0, 500)
    b = list(body); b.append(body[i])                                   # first batch ... last batch
    out.append(("big-dup-far", render(b)))
    i = rng.randrange(0, per_batch - 2)
    b = list(body); b.insert(i + 1, body[i].replace("-2.5", "-1.5"))    # adjacent: same batch
    out.append(("big-dup-adjacent", render(b)))
    i, j = rng.randrange(len(body)), rng.randrange(len(body))
    b = list(body); b.insert(j, body[i])
    out.append(("big-dup-random", render(b)))
    i = rng.randrange(per_batch - 300, per_batch - 1)                      # straddling the batch boundary
    b = list(body); b.insert(per_batch + rng.randrange(0, 3), body[i])
    out.append(("big-dup-boundary", render(b)))
    return out
