"""Generators and file readers for the C13 `interpolate` stream.

* corpora over overlapping / disjoint vocabularies, lmplz `--intermediate` models of order 2..5
* reader of the intermediate format (<base>.kenlm_intermediate, <base>.vocab, <base>.N)
* ARPA reader + the textbook back-off recursion (independent oracle side, plain Python floats)
* op lines for lean/Driver/C13.lean
"""
import math
import os
import struct

from vlib.common import run

RESERVED = ("<unk>", "<s>", "</s>")

WORD_POOLS = [
    ["a", "b", "c", "d", "e", "f", "g", "h"],
    ["a", "b", "x", "y", "z", "e", "q"],
    ["uno", "dos", "a", "x", "tres", "b"],
    ["k1", "k2", "k3", "k4", "k5", "k6", "k7", "k8", "k9"],
    ["a", "été", "naïve", "b", "|", "c#", "1.5", "-"],
]


def gen_corpus(rng, words, n_sent, max_len):
    """Zipf-ish random sentences; returns text (never emits reserved tokens)."""
    weights = [1.0 / (i + 1) for i in range(len(words))]
    lines = []
    for _ in range(n_sent):
        ln = rng.randint(1, max_len)
        lines.append(" ".join(rng.choices(words, weights)[0] for _ in range(ln)))
    return "\n".join(lines) + "\n"


def gen_corpus_wide(rng, words, n_sent, max_len):
    """every word occurs sentence-initially and after a hub word (contexts with as many successors as the vocabulary),
    plus random sentences"""
    hub = words[0]
    lines = []
    for w in words:
        lines.append(w + " " + rng.choice(words))
        if rng.random() < 0.7:
            lines.append(rng.choice(words) + " " + hub + " " + w)
    for _ in range(n_sent):
        lines.append(" ".join(rng.choice(words) for _ in range(rng.randint(1, max_len))))
    rng.shuffle(lines)
    return "\n".join(lines) + "\n"


def gen_vocab(rng, shared=None):
    pool = list(rng.choice(WORD_POOLS))
    rng.shuffle(pool)
    k = rng.randint(3, min(7, len(pool)))
    v = pool[:k]
    if shared and rng.random() < 0.8:
        # make sure vocabularies overlap partially
        for w in rng.sample(shared, min(len(shared), rng.randint(1, 3))):
            if w not in v:
                v[rng.randrange(len(v))] = w
        v = list(dict.fromkeys(v))
    return v


def lmplz_build(lmplz, text, order, base, timeout=120, extra=()):
    cmd = [lmplz, "-o", str(order), "--intermediate", base, "-S", "40M", "--discount_fallback"] + list(extra)
    rc, o, e = run(cmd, timeout=timeout, input=text.encode("utf-8"))
    return rc, e


def read_intermediate(base):
    """-> dict(order, counts, vocab [str], entries {k: [(ids tuple, pbits, bbits)]})"""
    meta = open(base + ".kenlm_intermediate", "rb").read().decode("utf-8", "replace").splitlines()
    assert meta[0] == "KenLM intermediate binary file", meta
    counts = [int(x) for x in meta[1].split()[1:]]
    assert meta[2].split() == ["Payload", "pb"], meta
    raw = open(base + ".vocab", "rb").read().split(b"\0")
    if raw and raw[-1] == b"":
        raw = raw[:-1]
    vocab = [w.decode("utf-8") for w in raw]
    entries = {}
    for k in range(1, len(counts) + 1):
        d = open("%s.%d" % (base, k), "rb").read()
        rs = 4 * k + 8
        assert len(d) == rs * counts[k - 1], (k, len(d), counts)
        es = []
        for i in range(0, len(d), rs):
            ids = struct.unpack("<%dI" % k, d[i:i + 4 * k])
            pb, bb = struct.unpack("<II", d[i + 4 * k:i + rs])
            es.append((ids, pb, bb))
        entries[k] = es
    return {"order": len(counts), "counts": counts, "vocab": vocab, "entries": entries, "base": base}


def f32(bits):
    return struct.unpack("<f", struct.pack("<I", bits))[0]


def f32bits(x):
    return struct.unpack("<I", struct.pack("<f", x))[0]


def f64_from_bits(s):
    return struct.unpack("<d", struct.pack("<Q", int(s)))[0]


def model_grams(m):
    """{tuple(words): (prob, backoff)} with strings"""
    g = {}
    v = m["vocab"]
    for k, es in m["entries"].items():
        for ids, pb, bb in es:
            g[tuple(v[i] for i in ids)] = (f32(pb), f32(bb))
    return g


def driver_ops(models, weights_bits):
    ops = []
    for m in models:
        ops.append("model %d" % m["order"])
        for w in m["vocab"]:
            ops.append("v " + w)
        for k in sorted(m["entries"]):
            for ids, pb, bb in m["entries"][k]:
                ops.append("g %d %d %s" % (pb, bb, " ".join(str(i) for i in ids)))
    ops.append("weights " + " ".join(str(b) for b in weights_bits))
    ops.append("build")
    ops.append("vocab")
    ops.append("stuck")
    ops.append("stream")
    return ops


def parse_arpa(text):
    """-> (counts, {tuple(words): (prob, backoff)}) ; raises ValueError on malformed text"""
    lines = text.split("\n")
    i = 0
    while i < len(lines) and lines[i].strip() != "\\data\\":
        i += 1
    if i == len(lines):
        raise ValueError("no \\data\\")
    i += 1
    counts = []
    while i < len(lines) and lines[i].startswith("ngram "):
        counts.append(int(lines[i].split("=")[1]))
        i += 1
    grams = {}
    per_order = [0] * len(counts)
    k = 0
    seen_end = False
    while i < len(lines):
        ln = lines[i]
        i += 1
        if not ln.strip():
            continue
        if ln.startswith("\\") and ln.endswith("-grams:"):
            k = int(ln[1:].split("-")[0])
            continue
        if ln.strip() == "\\end\\":
            seen_end = True
            break
        f = ln.split("\t")
        if k == 0 or len(f) < 2:
            raise ValueError("bad line %r" % ln)
        ws = tuple(f[1].split(" "))
        if len(ws) != k:
            raise ValueError("wrong n-gram length %r" % ln)
        if ws in grams:
            raise ValueError("duplicate n-gram %r" % (ws,))
        grams[ws] = (float(f[0]), float(f[2]) if len(f) > 2 else 0.0)
        per_order[k - 1] += 1
    if not seen_end:
        raise ValueError("no \\end\\")
    if per_order != counts:
        raise ValueError("header counts %s but %s entries" % (counts, per_order))
    return counts, grams


def arpa_score(grams, ctx, w):
    """textbook back-off recursion; ctx: tuple of words (oldest first); words assumed in vocabulary"""
    ctx = tuple(ctx)
    while True:
        g = ctx + (w,)
        if g in grams:
            return grams[g][0]
        if not ctx:
            return grams[("<unk>",)][0]
        b = grams.get(ctx, (0.0, 0.0))[1]
        return b + arpa_score(grams, ctx[1:], w)


def comp_score(grams, order, ctx, w):
    """component score with <unk> mapping (independent Python oracle of the defining formula)"""
    def nm(x):
        return x if (x,) in grams else "<unk>"
    ctx = tuple(nm(x) for x in ctx)
    w = nm(w)
    ctx = ctx[-(order - 1):] if order > 1 else ()
    return arpa_score(grams, ctx, w)


def formula(comps, lambdas, vocab_nobos, ctx):
    """{w: sum_i lambda_i score_i(w|ctx) - log10 Z(ctx)} in Python doubles"""
    s = {w: sum(l * comp_score(g, o, ctx, w) for l, (g, o) in zip(lambdas, comps)) for w in vocab_nobos}
    mx = max(s.values())
    logz = mx + math.log10(sum(10.0 ** (v - mx) for v in s.values()))
    return {w: v - logz for w, v in s.items()}, logz
