"""Generators and runners shared by checks/C11.py and checks/C12.py (streams `filter`,
`filter-threads`): ARPA / raw-count inputs, vocabulary / sentence files, invocation of the
real bin/filter under a timeout, and of the Lean driver (lean/Model/FilterDrv.lean)."""
import os
import shutil
import subprocess

from vlib.common import run

TAGS = [b"<s>", b"</s>", b"<unk>"]
ODD = [b"<", b">", b"<>", b"<x", b"x>", b"<a>", b"a<b>", b"<<", b">a<", b"\xc3\xa9t\xc3\xa9", b"a\x0bb", b"#x", b"\\1"]


def gen_words(rng, n, equal_len=False):
    """n distinct ordinary words (no tab / space / newline / CR)."""
    if equal_len:
        return [b"w%03d" % i for i in range(n)]
    out = []
    seen = set()
    alphabet = b"abcdefgh"
    while len(out) < n:
        if rng.random() < 0.12 and len(out) > 3:
            w = rng.choice(ODD)
        else:
            w = bytes(rng.choice(alphabet) for _ in range(rng.choice([1, 1, 2, 2, 3, 5])))
        if w in seen or w in TAGS:
            continue
        seen.add(w)
        out.append(w)
    return out


def steer_count(rng, b, cap=60):
    """a per-order count around multiples of the batch size: k*b, k*b+-1, 0"""
    k = rng.choice([0, 1, 1, 2, 3, 5])
    c = k * b + rng.choice([0, 0, 0, 1, -1])
    if rng.random() < 0.15:
        c = rng.randrange(0, cap)
    return max(0, min(c, cap))


def fmt_prob(rng, equal_len):
    if equal_len:
        return b"-%d.%04d" % (rng.randrange(0, 10), rng.randrange(0, 10000))
    return rng.choice([b"-0.5", b"-1.25", b"-99", b"0", b"-3.4028235e+38", b"-0.30103", b"-2.5"])


def gen_arpa(rng, words, counts, equal_len=False, with_tags=True, cr=False, comments=False):
    """An ARPA file with exactly counts[i] lines of order i+1 (n-grams drawn at random;
    duplicates allowed - the filter does not care).  Returns (bytes, list of per-order
    n-gram line lists)."""
    vocab = list(words) + (TAGS if with_tags and not equal_len else [])
    nl = b"\r\n" if cr else b"\n"
    out = []
    if comments:
        out.append(b"# generated" + nl + nl)
    out.append(b"\\data\\" + nl)
    for i, c in enumerate(counts):
        out.append(b"ngram %d=%d" % (i + 1, c) + nl)
    out.append(nl)
    orders = []
    for i, c in enumerate(counts):
        out.append(b"\\%d-grams:" % (i + 1) + nl)
        lines = []
        for _ in range(c):
            ng = b" ".join(rng.choice(vocab) for _ in range(i + 1))
            ln = fmt_prob(rng, equal_len) + b"\t" + ng
            if i + 1 < len(counts) or rng.random() < 0.1:
                ln += b"\t" + fmt_prob(rng, equal_len)
            lines.append(ln)
            out.append(ln + nl)
        orders.append(lines)
        out.append(nl)
    out.append(b"\\end\\" + nl)
    return b"".join(out), orders


def gen_raw(rng, words, n, equal_len=False, last_newline=True):
    vocab = list(words) + ([] if equal_len else TAGS)
    lines = []
    for _ in range(n):
        k = 2 if equal_len else rng.choice([1, 2, 2, 3, 4])
        ng = b" ".join(rng.choice(vocab) for _ in range(k))
        r = rng.random()
        if equal_len:
            ln = ng + b"\t%03d" % rng.randrange(1000)
        elif r < 0.8:
            ln = ng + b"\t%d" % rng.randrange(1, 500)
        elif r < 0.9:
            ln = ng
        else:
            ln = ng + b"\t" + rng.choice([b"", b"1\t2", b"x y"])
        lines.append(ln)
    data = b"\n".join(lines)
    if lines and last_newline:
        data += b"\n"
    return data, lines


def gen_vocab_single(rng, words, frac=None):
    frac = rng.choice([0.0, 0.3, 0.6, 0.9, 1.0]) if frac is None else frac
    chosen = [w for w in words if rng.random() < frac]
    if rng.random() < 0.3:
        chosen += [b"zzz", b"<s>"]
    seps = [b" ", b"\n", b"\t", b"  ", b" \n", b"\r\n"]
    data = b"".join(w + rng.choice(seps) for w in chosen)
    return data


def gen_sentences(rng, words, nsent=None, messy=True):
    nsent = rng.choice([1, 2, 3, 4, 6]) if nsent is None else nsent
    lines = []
    for _ in range(nsent):
        frac = rng.choice([0.2, 0.5, 0.8, 1.0])
        ws = [w for w in words if rng.random() < frac]
        if not ws:
            ws = [rng.choice(words)]
        rng.shuffle(ws)
        if messy and rng.random() < 0.3:
            ws = ws + ws[:2]                # duplicates within a sentence
        sep = b" "
        ln = sep.join(ws)
        if messy and rng.random() < 0.2:
            ln = b"  " + ln.replace(b" ", b" \t ", 1) + b" "
        lines.append(ln)
        if messy and rng.random() < 0.2:
            lines.append(rng.choice([b"", b"   ", b"\t"]))   # blank line: no sentence id
    data = b"\n".join(lines)
    if rng.random() < 0.85 or not messy:
        data += b"\n"
    return data


# ------------------------------------------------------------------------- running things
def tool_cmd(fbin, mode, context, fmt, threads, batch, vocab_path, out_path, phrase=False):
    cmd = [fbin, mode]
    if context:
        cmd.append("context")
    if phrase:
        cmd.append("phrase")
    cmd += [fmt, "threads:%d" % threads, "batch_size:%d" % batch, "vocab:" + vocab_path, out_path]
    return cmd


def collect(prefix, multiple):
    """bytes of the output files: dict name-suffix -> bytes"""
    d = os.path.dirname(prefix)
    base = os.path.basename(prefix)
    out = {}
    if not multiple:
        if os.path.exists(prefix):
            out[""] = open(prefix, "rb").read()
        return out
    for fn in os.listdir(d):
        if fn.startswith(base) and fn[len(base):].isdigit():
            out[fn[len(base):]] = open(os.path.join(d, fn), "rb").read()
    return out


def run_filter(fbin, workdir, tag, mode, context, fmt, threads, batch, vocab_path, model_bytes,
               timeout=20, phrase=False):
    """Run the real tool.  Returns (status, files) with status in ok|error|hang|crash."""
    prefix = os.path.join(workdir, "out_%s_" % tag)
    for fn in os.listdir(workdir):
        if fn.startswith("out_%s_" % tag):
            os.unlink(os.path.join(workdir, fn))
    cmd = tool_cmd(fbin, mode, context, fmt, threads, batch, vocab_path, prefix, phrase)
    rc, o, e = run(cmd, timeout=timeout, input=model_bytes, binary=True)
    if rc == "timeout":
        st = "hang"
    elif rc == 0:
        st = "ok"
    elif isinstance(rc, int) and (rc < 0 or rc >= 126):
        st = "crash"
    else:
        st = "error"
    return st, collect(prefix, mode == "multiple"), cmd


class Driver:
    """One long-lived drv_C11 / drv_C12 process."""

    def __init__(self, exe):
        self.p = subprocess.Popen([exe], stdin=subprocess.PIPE, stdout=subprocess.PIPE)

    def job(self, variant, mode, context, fmt, threads, batch, seed, vocab_path, model_path, prefix):
        line = "job %s %s %d %s %d %d %d %s %s %s\n" % (variant, mode, 1 if context else 0, fmt, threads,
                                                       batch, seed, vocab_path, model_path, prefix)
        self.p.stdin.write(line.encode())
        self.p.stdin.flush()
        ans = self.p.stdout.readline().decode("utf-8", "replace").strip()
        info = {"raw": ans}
        parts = ans.split()
        info["head"] = parts[0] if parts else "dead"
        for kv in parts[1:]:
            if "=" in kv:
                k, v = kv.split("=", 1)
                info[k] = v
        return info

    def files(self, prefix, kind, n):
        out = {}
        for k in range(n):
            p = "%s.%s%d" % (prefix, kind, k)
            if os.path.exists(p):
                out[k] = open(p, "rb").read()
        return out

    def close(self):
        try:
            self.p.stdin.close()
            self.p.wait(timeout=10)
        except Exception:
            self.p.kill()


def same_files(ref, got, multiple):
    """ref: dict suffix->bytes from the tool; got likewise.  Returns None or a description."""
    if set(ref) != set(got):
        return "output file sets differ: %s vs %s" % (sorted(ref), sorted(got))
    for k in sorted(ref):
        if ref[k] != got[k]:
            a, b = ref[k].split(b"\n"), got[k].split(b"\n")
            return "file %r differs: %d vs %d lines (%d vs %d bytes)" % (k, len(a), len(b), len(ref[k]), len(got[k]))
    return None


def drv_as_tool(files, multiple):
    """driver files {k: bytes} in the naming of the tool's {suffix: bytes}"""
    if multiple:
        return {str(k): v for k, v in files.items()}
    return {"": files.get(0, b"")}


# ------------------------------------------------------------------------- valid language models (C11 decode clause)
def gen_lm(rng, words, order=3):
    """A closed back-off model over words + <unk> <s> </s>: every prefix and suffix of an
    n-gram is present.  Returns (arpa bytes, per-order list of n-gram tuples)."""
    vocab = [b"<unk>", b"<s>", b"</s>"] + list(words)
    grams = [[(w,) for w in vocab]]
    for n in range(2, order + 1):
        prev = set(grams[-1])
        cand = []
        for g in grams[-1]:
            if g[-1] == b"</s>":
                continue
            for w in vocab[2:] + list(words):
                if w == b"<s>":
                    continue
                h = g + (w,)
                if h[1:] in prev and rng.random() < (0.5 if n == 2 else 0.6):
                    cand.append(h)
        cand = sorted(set(c for c in cand if b"<s>" not in c[1:] and b"<unk>" not in c))
        if not cand:
            break
        grams.append(cand)
    out = [b"\\data\\\n"]
    for i, g in enumerate(grams):
        out.append(b"ngram %d=%d\n" % (i + 1, len(g)))
    out.append(b"\n")
    for i, gl in enumerate(grams):
        out.append(b"\\%d-grams:\n" % (i + 1))
        for g in gl:
            p = -rng.randrange(1, 4000) / 1000.0
            if g == (b"<s>",):
                p = -99.0
            ln = b"%.4f\t%s" % (p, b" ".join(g))
            if i + 1 < len(grams):
                ln += b"\t%.4f" % (-rng.randrange(0, 2000) / 1000.0)
            out.append(ln + b"\n")
        out.append(b"\n")
    out.append(b"\\end\\\n")
    return b"".join(out), grams


def parse_query(out):
    """bin/query output -> list per sentence of (ngram_length, prob) per token + total"""
    res = []
    for ln in out.splitlines():
        if "Total:" not in ln:
            continue
        toks = []
        for part in ln.split("\t"):
            part = part.strip()
            if part.startswith("Total:"):
                toks.append(("total", part.split()[1], part.split()[-1]))
            elif "=" in part:
                f = part.rsplit("=", 1)[1].split()
                if len(f) >= 3:
                    toks.append((f[1], f[2]))
        res.append(toks)
    return res
