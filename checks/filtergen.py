"""Generators and runners shared by checks/C11.py and checks/C12.py (streams `filter`,
`filter-threads`): ARPA / raw-count inputs, vocabulary / sentence files, invocation of the
real bin/filter under a timeout, and of the Lean driver (lean/Model/FilterDrv.lean)."""
import os
import shutil
import subprocess

from vlib.common import run

TAGS = [b"<s>", b"</s>", b"<unk>"]
CLASS_TAGS = [b"<num>", b"<url>"]
EQ_TAGS = [b"<nm>", b"<ur>", b"<s_>"]       # four bytes, like the w%03d words of the equal-length inputs


def all_tag_ngram(rng, k, equal_len):
    """an n-gram of order k >= 2 consisting of tags only: `<s> <num>`, `<url> </s>`, `<s> </s>` ..."""
    if equal_len:
        return b" ".join(rng.choice(EQ_TAGS) for _ in range(k))
    mid = [rng.choice(CLASS_TAGS + [b"<unk>"]) for _ in range(k)]
    if rng.random() < 0.6:
        mid[0] = b"<s>"
    if rng.random() < 0.5:
        mid[-1] = b"</s>"
    return b" ".join(mid)
ODD = [b"<", b">", b"<>", b"<x", b"x>", b"<a>", b"a<b>", b"<<", b">a<", b"\xc3\xa9t\xc3\xa9", b"a\x0bb", b"#x", b"\\1"]


def gen_words(rng, n, equal_len=False):
    """n distinct ordinary words (no tab / space / newline / CR)."""
    if equal_len:
        return [b"w%03d" % i for i in range(n)]
    out = []
    seen = set()
    alphabet = b"abcdefgh"
    while len(out) < n:
        if rng.random() < 0.12 and len(out) > 3:
            w = rng.choice(ODD)
        else:
            w = bytes(rng.choice(alphabet) for _ in range(rng.choice([1, 1, 2, 2, 3, 5])))
        if w in seen or w in TAGS:
            continue
        seen.add(w)
        out.append(w)
    return out


def steer_count(rng, b, cap=60):
    """a per-order count around multiples of the batch size: k*b, k*b+-1, 0"""
    k = rng.choice([0, 1, 1, 2, 3, 5])
    c = k * b + rng.choice([0, 0, 0, 1, -1])
    if rng.random() < 0.15:
        c = rng.randrange(0, cap)
    return max(0, min(c, cap))


def fmt_prob(rng, equal_len):
    if equal_len:
        return b"-%d.%04d" % (rng.randrange(0, 10), rng.randrange(0, 10000))
    return rng.choice([b"-0.5", b"-1.25", b"-99", b"0", b"-3.4028235e+38", b"-0.30103", b"-2.5"])


def gen_arpa(rng, words, counts, equal_len=False, with_tags=True, cr=False, comments=False):
    """An ARPA file with exactly counts[i] lines of order i+1 (n-grams drawn at random;
    duplicates allowed - the filter does not care).  Returns (bytes, list of per-order
    n-gram line lists)."""
    vocab = list(words) + (TAGS if with_tags and not equal_len else [])
    nl = b"\r\n" if cr else b"\n"
    out = []
    if comments:
        out.append(b"# generated" + nl + nl)
    out.append(b"\\data\\" + nl)
    for i, c in enumerate(counts):
        out.append(b"ngram %d=%d" % (i + 1, c) + nl)
    out.append(nl)
    orders = []
    for i, c in enumerate(counts):
        out.append(b"\\%d-grams:" % (i + 1) + nl)
        lines = []
        for _ in range(c):
            ng = b" ".join(rng.choice(vocab) for _ in range(i + 1))
            if i >= 1 and rng.random() < 0.1:
                ng = all_tag_ngram(rng, i + 1, equal_len)
            ln = fmt_prob(rng, equal_len) + b"\t" + ng
            if i + 1 < len(counts) or rng.random() < 0.1:
                ln += b"\t" + fmt_prob(rng, equal_len)
            lines.append(ln)
            out.append(ln + nl)
        orders.append(lines)
        out.append(nl)
    out.append(b"\\end\\" + nl)
    return b"".join(out), orders


def gen_raw(rng, words, n, equal_len=False, last_newline=True):
    vocab = list(words) + ([] if equal_len else TAGS)
    lines = []
    for _ in range(n):
        k = 2 if equal_len else rng.choice([1, 2, 2, 3, 4])
        ng = b" ".join(rng.choice(vocab) for _ in range(k))
        if k >= 2 and rng.random() < 0.1:
            ng = all_tag_ngram(rng, k, equal_len)
        r = rng.random()
        if equal_len:
            ln = ng + b"\t%03d" % rng.randrange(1000)
        elif r < 0.8:
            ln = ng + b"\t%d" % rng.randrange(1, 500)
        elif r < 0.9:
            ln = ng
        else:
            ln = ng + b"\t" + rng.choice([b"", b"1\t2", b"x y"])
        lines.append(ln)
    data = b"\n".join(lines)
    if lines and last_newline:
        data += b"\n"
    return data, lines


def gen_vocab_single(rng, words, frac=None):
    frac = rng.choice([0.0, 0.3, 0.6, 0.9, 1.0]) if frac is None else frac
    chosen = [w for w in words if rng.random() < frac]
    if rng.random() < 0.3:
        chosen += [b"zzz", b"<s>"]
    seps = [b" ", b"\n", b"\t", b"  ", b" \n", b"\r\n"]
    data = b"".join(w + rng.choice(seps) for w in chosen)
    return data


def gen_sentences(rng, words, nsent=None, messy=True):
    nsent = rng.choice([1, 2, 3, 4, 6]) if nsent is None else nsent
    lines = []
    for _ in range(nsent):
        frac = rng.choice([0.2, 0.5, 0.8, 1.0])
        ws = [w for w in words if rng.random() < frac]
        if not ws:
            ws = [rng.choice(words)]
        rng.shuffle(ws)
        if messy and rng.random() < 0.3:
            ws = ws + ws[:2]                # duplicates within a sentence
        sep = b" "
        ln = sep.join(ws)
        if messy and rng.random() < 0.2:
            ln = b"  " + ln.replace(b" ", b" \t ", 1) + b" "
        lines.append(ln)
        if messy and rng.random() < 0.2:
            lines.append(rng.choice([b"", b"   ", b"\t"]))   # blank line: no sentence id
    data = b"\n".join(lines)
    if rng.random() < 0.85 or not messy:
        data += b"\n"
    return data


# ------------------------------------------------------------------------- running things
def tool_cmd(fbin, mode, context, fmt, threads, batch, vocab_path, out_path, phrase=False):
    cmd = [fbin, mode]
    if context:
        cmd.append("context")
    if phrase:
        cmd.append("phrase")
    cmd += [fmt, "threads:%d" % threads, "batch_size:%d" % batch, "vocab:" + vocab_path, out_path]
    return cmd


def collect(prefix, multiple):
    """bytes of the output files: dict name-suffix -> bytes"""
    d = os.path.dirname(prefix)
    base = os.path.basename(prefix)
    out = {}
    if not multiple:
        if os.path.exists(prefix):
            out[""] = open(prefix, "rb").read()
        return out
    for fn in os.listdir(d):
        if fn.startswith(base) and fn[len(base):].isdigit():
            out[fn[len(base):]] = open(os.path.join(d, fn), "rb").read()
    return out


def run_filter(fbin, workdir, tag, mode, context, fmt, threads, batch, vocab_path, model_bytes,
               timeout=20, phrase=False):
    """Run the real tool.  Returns (status, files) with status in ok|error|hang|crash."""
    prefix = os.path.join(workdir, "out_%s_" % tag)
    for fn in os.listdir(workdir):
        if fn.startswith("out_%s_" % tag):
            os.unlink(os.path.join(workdir, fn))
    cmd = tool_cmd(fbin, mode, context, fmt, threads, batch, vocab_path, prefix, phrase)
    rc, o, e = run(cmd, timeout=timeout, input=model_bytes, binary=True)
    if rc == "timeout":
        st = "hang"
    elif rc == 0:
        st = "ok"
    elif isinstance(rc, int) and (rc < 0 or rc >= 126):
        st = "crash"
    else:
        st = "error"
    return st, collect(prefix, mode == "multiple"), cmd


class Driver:
    """One long-lived drv_C11 / drv_C12 process."""

    def __init__(self, exe):
        self.p = subprocess.Popen([exe], stdin=subprocess.PIPE, stdout=subprocess.PIPE)

    def job(self, variant, mode, context, fmt, threads, batch, seed, vocab_path, model_path, prefix):
        line = "job %s %s %d %s %d %d %d %s %s %s\n" % (variant, mode, 1 if context else 0, fmt, threads,
                                                       batch, seed, vocab_path, model_path, prefix)
        self.p.stdin.write(line.encode())
        self.p.stdin.flush()
        ans = self.p.stdout.readline().decode("utf-8", "replace").strip()
        info = {"raw": ans}
        parts = ans.split()
        info["head"] = parts[0] if parts else "dead"
        for kv in parts[1:]:
            if "=" in kv:
                k, v = kv.split("=", 1)
                info[k] = v
        return info

    def pjob(self, mode, context, fmt, vocab_path, model_path, prefix):
        line = "pjob %s %d %s %s %s %s\n" % (mode, 1 if context else 0, fmt, vocab_path, model_path, prefix)
        self.p.stdin.write(line.encode())
        self.p.stdin.flush()
        ans = self.p.stdout.readline().decode("utf-8", "replace").strip()
        info = {"raw": ans}
        parts = ans.split()
        info["head"] = parts[0] if parts else "dead"
        for kv in parts[1:]:
            if "=" in kv:
                k, v = kv.split("=", 1)
                info[k] = v
        return info

    def files(self, prefix, kind, n):
        out = {}
        for k in range(n):
            p = "%s.%s%d" % (prefix, kind, k)
            if os.path.exists(p):
                out[k] = open(p, "rb").read()
        return out

    def close(self):
        try:
            self.p.stdin.close()
            self.p.wait(timeout=10)
        except Exception:
            self.p.kill()


def same_files(ref, got, multiple):
    """ref: dict suffix->bytes from the tool; got likewise.  Returns None or a description."""
    if set(ref) != set(got):
        return "output file sets differ: %s vs %s" % (sorted(ref), sorted(got))
    for k in sorted(ref):
        if ref[k] != got[k]:
            a, b = ref[k].split(b"\n"), got[k].split(b"\n")
            return "file %r differs: %d vs %d lines (%d vs %d bytes)" % (k, len(a), len(b), len(ref[k]), len(got[k]))
    return None


def drv_as_tool(files, multiple):
    """driver files {k: bytes} in the naming of the tool's {suffix: bytes}"""
    if multiple:
        return {str(k): v for k, v in files.items()}
    return {"": files.get(0, b"")}


# ------------------------------------------------------------------------- valid language models (C11 decode clause)
def gen_lm(rng, words, order=3):
    """A closed back-off model over words + <unk> <s> </s>: every prefix and suffix of an
    n-gram is present.  Returns (arpa bytes, per-order list of n-gram tuples)."""
    vocab = [b"<unk>", b"<s>", b"</s>"] + list(words)
    grams = [[(w,) for w in vocab]]
    for n in range(2, order + 1):
        prev = set(grams[-1])
        cand = []
        for g in grams[-1]:
            if g[-1] == b"</s>":
                continue
            for w in vocab[2:] + list(words):
                if w == b"<s>":
                    continue
                h = g + (w,)
                if h[1:] in prev and rng.random() < (0.5 if n == 2 else 0.6):
                    cand.append(h)
        cand = sorted(set(c for c in cand if b"<s>" not in c[1:] and b"<unk>" not in c))
        if not cand:
            break
        grams.append(cand)
    out = [b"\\data\\\n"]
    for i, g in enumerate(grams):
        out.append(b"ngram %d=%d\n" % (i + 1, len(g)))
    out.append(b"\n")
    for i, gl in enumerate(grams):
        out.append(b"\\%d-grams:\n" % (i + 1))
        for g in gl:
            p = -rng.randrange(1, 4000) / 1000.0
            if g == (b"<s>",):
                p = -99.0
            ln = b"%.4f\t%s" % (p, b" ".join(g))
            if i + 1 < len(grams):
                ln += b"\t%.4f" % (-rng.randrange(0, 2000) / 1000.0)
            out.append(ln + b"\n")
        out.append(b"\n")
    out.append(b"\\end\\\n")
    return b"".join(out), grams


def parse_query(out):
    """bin/query output -> list per sentence of (ngram_length, prob) per token + total"""
    res = []
    for ln in out.splitlines():
        if "Total:" not in ln:
            continue
        toks = []
        for part in ln.split("\t"):
            part = part.strip()
            if part.startswith("Total:"):
                toks.append(("total", part.split()[1], part.split()[-1]))
            elif "=" in part:
                f = part.rsplit("=", 1)[1].split()
                if len(f) >= 3:
                    toks.append((f[1], f[2]))
        res.append(toks)
    return res


# ------------------------------------------------------------------------- phrase mode
PH_ALPHA = [b"a", b"b", b"c", b"d", b"y", b"z"]


def parse_phrase_file(data):
    """lm/filter/phrase.cc ReadMultiple, written as the same character loop (independent of the
    Lean model): returns list of sentences, each a list of phrases (tuples of words)."""
    sents, cur_sent, phrase, word = [], [], [], b""
    i, n = 0, len(data)
    while True:
        if i < n:
            c = data[i:i + 1]
            i += 1
            eof = False
        else:
            c, eof = b"\n", True
        if c not in b" \t\n\v\f\r":
            word += c
            continue
        if word:
            phrase.append(word)
            word = b""
        if c == b" ":
            continue
        if phrase:
            cur_sent.append(tuple(phrase))
            phrase = []
        if c in b"\t\v":
            continue
        if cur_sent:
            sents.append(cur_sent)
            cur_sent = []
        if eof:
            break
    return sents


def is_tag(w):
    return len(w) >= 1 and w[:1] == b"<" and w[-1:] == b">"


def phrase_words(ws):
    ws = list(ws)
    if ws and is_tag(ws[0]):
        ws = ws[1:]
    out = []
    for w in ws:
        if w == b"</s>":
            break
        out.append(w)
    return tuple(out)


def py_tiles(phrases, g):
    """DP formulation of Tiles for one sentence (g non-empty tuple of words)."""
    n = len(g)
    for p in phrases:
        for i in range(len(p) - n + 1):
            if p[i:i + n] == g:
                return True
    reach = [False] * (n + 1)
    for j in range(n - 1, 0, -1):
        r = g[j:]
        ok = any(p[:len(r)] == r for p in phrases)
        if not ok:
            for p in phrases:
                if j + len(p) < n and g[j:j + len(p)] == p and reach[j + len(p)]:
                    ok = True
                    break
        reach[j] = ok
    for i in range(1, n):
        if reach[i] and any(len(p) >= i and p[len(p) - i:] == g[:i] for p in phrases):
            return True
    return False


def brute_tiles(phrases, g):
    """literally 'can be read off a concatenation of phrases': enumerate concatenations"""
    n = len(g)
    phrases = [p for p in phrases if p]
    seqs = [()]
    for _ in range(n + 1):
        nxt = []
        for s in seqs:
            for p in phrases:
                nxt.append(s + p)
        for c in nxt:
            for i in range(len(c) - n + 1):
                if c[i:i + n] == g:
                    return True
        seqs = [c for c in nxt if len(c) <= 3 * n + 6][:4000]
    return False


def ngram_of_line(line, fmt):
    f = line.split(b"\t")
    return f[1] if fmt == "arpa" else f[0]


def context_of(g):
    i = g.rfind(b" ", 1)
    return g[:i] if i > 0 else b""


def py_must(sents, line, fmt, context):
    """set of sentence ids that must keep the line, or 'all'"""
    g = ngram_of_line(line, fmt)
    if context:
        g = context_of(g)
    ws = phrase_words([w for w in g.split(b" ") if w])
    if not ws:
        return "all"
    return [s for s, ph in enumerate(sents) if py_tiles(ph, ws)]


PH_LONG = [b"e", b"f", b"g", b"h", b"i", b"j", b"k", b"l", b"m", b"n", b"o", b"p"]


def gen_phrase_file(rng, messy=True, max_order=6):
    nsent = rng.choice([1, 2, 3, 4, 6, 7])
    lines = []
    long_at = rng.randrange(nsent) if rng.random() < 0.6 else -1
    for si in range(nsent):
        nph = rng.choice([1, 1, 2, 2, 3, 4])
        phs = []
        for _ in range(nph):
            k = rng.choice([1, 1, 1, 2, 2, 3])
            phs.append(b" ".join(rng.choice(PH_ALPHA[:5]) for _ in range(k)))
        if si == long_at:
            # one phrase of at least KENLM_MAX_ORDER words whose words occur nowhere else: its parts can only be
            # read off this phrase (the FindSubstring path of BuildGraph)
            k = max_order + rng.choice([0, 0, 1, 3])
            phs.insert(rng.randrange(len(phs) + 1), b" ".join(rng.sample(PH_LONG, min(k, len(PH_LONG)))))
        sep = b"\t"
        ln = sep.join(phs)
        if messy and rng.random() < 0.15:
            ln = ln.replace(b"\t", b"\v", 1)
        if messy and rng.random() < 0.15:
            ln = b" " + ln.replace(b" ", b"  ", 1) + b" "
        lines.append(ln)
        if messy and rng.random() < 0.15:
            lines.append(rng.choice([b"", b" ", b"\t"]))
    data = b"\n".join(lines)
    if rng.random() < 0.85:
        data += b"\n"
    return data


SEEDED_PHRASES = b"b\nc\td\nz\na\tb c\td\nz\ty\na\tb\n"


def gen_phrase_ngrams(rng, sents, n_per_order, max_order):
    """per order a list of n-grams (bytes): many are read off concatenations of one sentence's phrases"""
    orders = [[] for _ in range(max_order)]
    for o in range(max_order):
        for _ in range(n_per_order[o]):
            r = rng.random()
            ws = None
            longs = [p for ph in sents for p in ph if len(p) >= o + 1 and len(p) >= 5]
            if longs and r < 0.3:
                p = rng.choice(longs)
                st = rng.randrange(0, len(p) - o)
                ws = list(p[st:st + o + 1])
            elif sents and r < 0.65:
                ph = rng.choice(sents)
                cat = []
                for _ in range(rng.randrange(1, 5)):
                    cat += list(rng.choice(ph))
                if len(cat) >= o + 1:
                    st = rng.randrange(0, len(cat) - o)
                    ws = cat[st:st + o + 1]
            if ws is None:
                ws = [rng.choice(PH_ALPHA) for _ in range(o + 1)]
            if o >= 1 and rng.random() < 0.05:
                ws = all_tag_ngram(rng, o + 1, False).split(b" ")
            if o >= 1 and rng.random() < 0.12:
                ws[0] = b"<s>"
            if o >= 1 and rng.random() < 0.12:
                ws[-1] = b"</s>"
            if o >= 2 and rng.random() < 0.04:
                ws[1] = b"<unk>"
            orders[o].append(b" ".join(ws))
    return orders


def arpa_from_ngrams(rng, orders):
    out = [b"\\data\\\n"] + [b"ngram %d=%d\n" % (i + 1, len(o)) for i, o in enumerate(orders)] + [b"\n"]
    lines = []
    for i, o in enumerate(orders):
        out.append(b"\\%d-grams:\n" % (i + 1))
        sec = []
        for g in o:
            ln = b"-%d.%03d\t%s" % (rng.randrange(0, 5), rng.randrange(0, 1000), g)
            if i + 1 < len(orders):
                ln += b"\t-0.%d" % rng.randrange(1, 9)
            sec.append(ln)
            out.append(ln + b"\n")
        lines.append(sec)
        out.append(b"\n")
    out.append(b"\\end\\\n")
    return b"".join(out), lines


def raw_from_ngrams(rng, orders):
    lines = []
    for o in orders:
        for g in o:
            lines.append(g + b"\t%d" % rng.randrange(1, 99))
    rng.shuffle(lines)
    return b"".join(l + b"\n" for l in lines), [lines]


def parse_arpa_out(data):
    """(header counts, sections) of an ARPA file written by the filter; None if malformed"""
    lines = data.split(b"\n")
    i = 0
    while i < len(lines) and lines[i] == b"":
        i += 1
    if i >= len(lines) or lines[i] != b"\\data\\":
        return None
    i += 1
    counts = []
    while i < len(lines) and lines[i].startswith(b"ngram "):
        counts.append(int(lines[i].split(b"=")[1]))
        i += 1
    sections = []
    while True:
        while i < len(lines) and lines[i] == b"":
            i += 1
        if i >= len(lines):
            return None
        if lines[i] == b"\\end\\":
            break
        if not (lines[i].startswith(b"\\") and lines[i].endswith(b"-grams:")):
            return None
        i += 1
        sec = []
        while i < len(lines) and lines[i] != b"":
            sec.append(lines[i])
            i += 1
        sections.append(sec)
    if any(l != b"" for l in lines[i + 1:]):
        return None
    return counts, sections


def is_subseq(small, big):
    it = iter(big)
    return all(any(x == y for y in it) for x in small)


def check_phrase_output(tool_bytes, must_bytes, fmt, in_sections):
    """tool output vs the lower bound and the input.  Returns None or a description."""
    if fmt == "arpa":
        t = parse_arpa_out(tool_bytes)
        m = parse_arpa_out(must_bytes)
        if t is None:
            return "tool output is not a well-formed ARPA file"
        if m is None:
            return "driver output malformed"
        tc, ts = t
        mc, ms = m
        if len(ts) != len(in_sections) or len(ms) != len(in_sections):
            return "number of sections differs from the input"
        if tc != [len(s) for s in ts]:
            return "header counts %s do not count the lines written %s" % (tc, [len(s) for s in ts])
    else:
        ts = [tool_bytes.split(b"\n")[:-1]] if tool_bytes else [[]]
        ms = [must_bytes.split(b"\n")[:-1]] if must_bytes else [[]]
        if tool_bytes and not tool_bytes.endswith(b"\n"):
            return "raw output does not end with a newline"
    for o, (tsec, msec, isec) in enumerate(zip(ts, ms, in_sections)):
        if not is_subseq(tsec, isec):
            return "order %d: output lines are not a sublist of the input lines" % (o + 1)
        if not is_subseq(msec, tsec):
            missing = [l for l in msec if l not in tsec]
            return "order %d: derivable n-gram line(s) dropped: %r" % (o + 1, missing[:3])
    return None


KENLM_MAX_ORDER = 6     # overwritten by the checks with the regenerated constant (tools/probe_C11.cc)


def gen_phrase_case(rng, tier):
    """a phrase-mode case: dict(mode, context, fmt, vocab, model, in_sections, sents, phrase=True)"""
    r = rng.random()
    if r < 0.2:
        vocab = SEEDED_PHRASES
    elif r < 0.3:
        vocab = SEEDED_PHRASES + gen_phrase_file(rng, max_order=KENLM_MAX_ORDER)
    else:
        vocab = gen_phrase_file(rng, max_order=KENLM_MAX_ORDER)
    sents = parse_phrase_file(vocab)
    max_order = rng.choice([3, 4, 5, KENLM_MAX_ORDER, KENLM_MAX_ORDER])
    cap = 14 if tier == "quick" else 40
    counts = [rng.randrange(1, cap) for _ in range(max_order)]
    orders = gen_phrase_ngrams(rng, sents, counts, max_order)
    if vocab.startswith(SEEDED_PHRASES) and max_order >= 4:
        orders[3].insert(rng.randrange(len(orders[3]) + 1), b"a b c d")
        orders[2].insert(rng.randrange(len(orders[2]) + 1), b"a b c")
    fmt = rng.choice(["arpa", "arpa", "raw"])
    if fmt == "arpa":
        model, in_sections = arpa_from_ngrams(rng, orders)
    else:
        model, in_sections = raw_from_ngrams(rng, orders)
    return dict(mode=rng.choice(["union", "multiple", "multiple"]), context=rng.random() < 0.25, fmt=fmt, vocab=vocab,
                model=model, in_sections=in_sections, sents=sents, phrase=True, orders=in_sections)


def expected_must_sections(case, k):
    """the oracle's lower bound for output file k (union: k = 0), per input section"""
    out = []
    for sec in case["in_sections"]:
        keep = []
        for ln in sec:
            m = py_must(case["sents"], ln, case["fmt"], case["context"])
            if m == "all" or (case["mode"] == "union" and m) or (case["mode"] == "multiple" and k in m):
                keep.append(ln)
        out.append(keep)
    return out


def phrase_verdict(case, tool_files, drv, vp, mp, pfx):
    """Check the tool's phrase-mode files against the Lean lower bound and the Python oracle.
    Returns (None | description, kind) with kind in tool|machinery."""
    info = drv.pjob(case["mode"], case["context"], case["fmt"], vp, mp, pfx)
    if info["head"] != "ok":
        return "driver rejects the input: " + info["raw"], "machinery"
    nout = int(info["outputs"])
    if nout != (1 if case["mode"] == "union" else len(case["sents"])):
        return "sentence count differs between the Lean reader and the Python reader", "machinery"
    must = drv.files(pfx, "must", nout)
    names = [""] if case["mode"] == "union" else [str(k) for k in range(nout)]
    if sorted(tool_files) != sorted(names):
        return "output file set %s, expected %s" % (sorted(tool_files), sorted(names)), "tool"
    for k, name in enumerate(names):
        exp = expected_must_sections(case, k)
        if case["fmt"] == "arpa":
            pm = parse_arpa_out(must[k])
            got = pm[1] if pm else None
        else:
            got = [must[k].split(b"\n")[:-1]] if must[k] else [[]]
        if got != exp:
            return "Lean Tiles and the Python oracle disagree on file %s" % name, "machinery"
        d = check_phrase_output(tool_files[name], must[k], case["fmt"], case["in_sections"])
        if d is not None:
            return "file %r: %s" % (name, d), "tool"
    # exact: the model of BuildGraph's graph (no hashing, no lazy search) predicts the files byte for byte
    graph = drv.files(pfx, "graph", nout)
    search = drv.files(pfx, "search", nout)
    for k, name in enumerate(names):
        if graph.get(k) != tool_files[name]:
            return "file %r differs from the search-graph model (%d vs %d bytes)" % (name, len(tool_files[name]), len(graph.get(k, b""))), "graph"
        if search.get(k) != tool_files[name]:
            return "file %r differs from the model of the lazy search (%d vs %d bytes)" % (name, len(tool_files[name]), len(search.get(k, b""))), "search"
    return None, None
