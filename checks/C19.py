"""C19 — Number formatting is bounded, shortest and round-trips through the parser."""
import json
import os
import struct

import shutil

from checks import C19_util, C19_hard
from vlib import flow, lean, repo, stream
from vlib.common import REPO, NPROC, SCRATCH, log
from vlib.common import run as sh

MANIFEST = {
    "text": "Lean theorems over a transcription of double-conversion's ToShortestIeeeNumber / CreateDecimalRepresentation / "
            "CreateExponentialRepresentation, kenlm's integer formatting and the strtoul/strtol/StringToIeee reader grammar: "
            "for every digit string and decimal point a float/double can produce the text (+ StringBuilder's NUL) fits "
            "ToStringBuf<T>::kBytes, every kBytes fits kToStringMaxBytes and FileStream's minimum buffer (constants "
            "regenerated from the headers on every run), the text consists of number characters only and denotes exactly "
            "(-1)^neg * 0.digits * 10^point, integers read back exactly.  Tied to the code by (i) the Lean driver printing the "
            "same text as util::ToString for the (digits, point) of the real DoubleToAscii, (ii) an oracle on the real code: "
            "bytes stored <= bytes reserved (canary), number characters only, FilePiece::ReadFloat/ReadDouble/ReadULong/"
            "ReadLong return the identical bits — in the thorough tier for ALL 2^32 floats and ALL 2^32 32-bit integers.",
    "note": "Trusted: Lean kernel + propext/Classical.choice/Quot.sound; statements in lean/Properties/C19.lean; the probe, "
            "harness, driver and comparator.  Shortest-digit generation (Grisu3/Bignum) and the correctly rounded "
            "string-to-binary conversion are double-conversion's algorithms: not modelled, covered exhaustively for float32 "
            "and by boundary classes + sampling for double (evidence about the code, not a theorem).  NaN payloads are not "
            "representable in the text 'NaN' (value-level round trip only).",
    "technique": "Lean 4 proof (case analysis / induction over an executable model) + differential correspondence with the real code",
}

REQUIRED = ["KV.C19.float_len", "KV.C19.double_len", "KV.C19.max_bytes", "KV.C19.int_len", "KV.C19.fmt_value",
            "KV.C19.int_roundtrip"]

PROBE_EXTRA = [REPO + "/util/scoped.cc", REPO + "/util/file.cc", REPO + "/util/exception.cc",
               REPO + "/util/integer_to_string.cc"] + \
              sorted(os.path.join(REPO, "util/double-conversion", f)
                     for f in os.listdir(os.path.join(REPO, "util/double-conversion")) if f.endswith(".cc"))


# ------------------------------------------------------------------------------------------------ helpers
def f32_bits(x):
    try:
        return struct.unpack("<I", struct.pack("<f", x))[0]
    except OverflowError:
        return 0x7F800000 if x > 0 else 0xFF800000


def f64_bits(x):
    return struct.unpack("<Q", struct.pack("<d", x))[0]


def hexs(s):
    return s.encode("latin-1").hex() if s else "-"


# ------------------------------------------------------------------------------------------------ generators
def gen_f32(rng, n_random):
    """bit patterns: every exponent x boundary mantissas x sign, powers of ten and neighbours, the decimal /
    exponential switch points, specials, then random bits."""
    out = []
    for e in range(256):
        for m in (0, 1, 2, 0x400000, 0x7FFFFE, 0x7FFFFF, rng.getrandbits(23)):
            out.append((rng.getrandbits(1) << 31) | (e << 23) | m)
    for k in range(-46, 40):
        b = f32_bits(float("1e%d" % k))
        for d in (-2, -1, 0, 1, 2):
            if 0 <= b + d < 0x7F800000:
                out.append((b + d) | (rng.getrandbits(1) << 31))
        for mant in ("9.9999999", "1.2345678", "5", "1.5", "9.87654321"):
            out.append(f32_bits(float("%se%d" % (mant, k))) | (rng.getrandbits(1) << 31))
    out += [0, 0x80000000, 0x7F800000, 0xFF800000, 0x7FC00000, 0xFFC00000, 0x7F800001, 0x7FFFFFFF, 1, 0x80000001,
            0x007FFFFF, 0x00800000, 0x7F7FFFFF, 0xFF7FFFFF]
    for _ in range(n_random):
        out.append(rng.getrandbits(32))
    return out


def gen_f64(rng, n_random):
    out = []
    for e in range(2048):
        for m in (0, 1, (1 << 52) - 1, 1 << 51, rng.getrandbits(52)):
            out.append((rng.getrandbits(1) << 63) | (e << 52) | m)
    for k in range(-325, 310):
        try:
            b = f64_bits(float("1e%d" % k))
        except (OverflowError, ValueError):
            continue
        for d in (-1, 0, 1):
            if 0 <= b + d < 0x7FF0000000000000:
                out.append((b + d) | (rng.getrandbits(1) << 63))
        for mant in ("9.9999999999999999", "1.2345678901234567", "5", "1.5", "9.8765432109876543", "1.234567890123456"):
            out.append(f64_bits(float("%se%d" % (mant, k))) | (rng.getrandbits(1) << 63))
    # every (digit count, decimal point) class around the notation thresholds
    for L in range(1, 18):
        for p in list(range(-8, 26)) + [-323, -322, -300, -100, 100, 300, 308, 309]:
            digs = "".join(str(rng.randrange(1, 10)) for _ in range(L))
            try:
                out.append(f64_bits(float("0.%se%d" % (digs, p))) | (rng.getrandbits(1) << 63))
            except (OverflowError, ValueError):
                pass
    for k in range(0, 64):
        for d in (-1, 0, 1):
            out.append(f64_bits(float((1 << k) + d)))
    out += [0, 1 << 63, 0x7FF0000000000000, 0xFFF0000000000000, 0x7FF8000000000000, 1, (1 << 63) | 1,
            0x000FFFFFFFFFFFFF, 0x0010000000000000, 0x7FEFFFFFFFFFFFFF, 0xFFEFFFFFFFFFFFFF]
    for _ in range(n_random):
        out.append(rng.getrandbits(64))
    # float32 values widened to double are what ARPA probabilities look like
    for _ in range(n_random // 4):
        out.append(f64_bits(struct.unpack("<f", struct.pack("<I", rng.getrandbits(31) % 0x7F800000))[0]))
    return out


def gen_ints(rng, n_random):
    ops = []

    def add(kind, v, bits, signed):
        lo, hi = (-(1 << (bits - 1)), (1 << (bits - 1)) - 1) if signed else (0, (1 << bits) - 1)
        if lo <= v <= hi:
            ops.append("%s %d" % (kind, v))
    kinds = [("u64", 64, False), ("i64", 64, True), ("u32", 32, False), ("i32", 32, True), ("u16", 16, False),
             ("i16", 16, True)]
    for kind, bits, signed in kinds:
        cands = [0, 1, -1, (1 << bits) - 1, (1 << (bits - 1)) - 1, -(1 << (bits - 1)), (1 << (bits - 1))]
        for k in range(0, 20):
            for d in (-1, 0, 1):
                cands += [10 ** k + d, -(10 ** k) + d]
        for k in range(0, 65):
            for d in (-1, 0, 1):
                cands += [(1 << k) + d, -(1 << k) + d]
        for _ in range(n_random):
            nd = rng.randrange(1, 21)
            v = rng.randrange(10 ** (nd - 1), 10 ** nd)
            cands.append(v if rng.random() < 0.6 else -v)
            cands.append(rng.getrandbits(bits) - (1 << (bits - 1) if signed else 0))
        for v in cands:
            add(kind, v, bits, signed)
    for v in [0, 1, 15, 16, 255, (1 << 64) - 1, 1 << 63, (1 << 47) - 1] + [rng.getrandbits(rng.randrange(1, 65)) for _ in range(n_random)]:
        ops.append("ptr %d" % v)
    for k in range(0, 16):
        for d in (-1, 0, 1):
            if 0 <= 16 ** k + d < (1 << 64):
                ops.append("ptr %d" % (16 ** k + d))
    return ops


INT_TOKENS = ["0", "1", "-1", "+1", "-0", "+0", "007", "-007", "18446744073709551615", "18446744073709551616",
              "-18446744073709551615", "-18446744073709551616", "9223372036854775807", "9223372036854775808",
              "-9223372036854775808", "-9223372036854775809", "99999999999999999999999999", "-", "+", "+-1", "--1",
              "abc", "12abc", "12.5", "1e5", "0x10", " 12", "\t-12", "- 5", "5-", "5+3", "1_000", ".5"]
FLOAT_TOKENS = ["0", "-0", "+0", "0.0", "-0.0", "000", "0.", ".0", ".", "-.", "5.", ".5", "-.5e1", "+.5E-1", "1e", "1e+", "1e-",
                "1ex", "1e+5", "1E5", "1e05", "1e5e5", "1.5.2", "0x10", "0x", "inf", "-inf", "+inf", "infinity", "in", "i",
                "INF", "Inf", "NaN", "-NaN", "+NaN", "NaNx", "NaN5", "nan", "nanx", "Na", "N", "Nan", "NAN", "NaNNaN", "NaN 1.5", "NaN\t-2",
                "NaN NaN", " NaN", "\tNaN x", " -NaN", "NaN.", "NaNe5", "NaN-1", "infNaN", "inf 2", "1e400", "-1e400", "1e-400",
                "-1e-400", "1e99999999999", "1e-99999999999", "0e99999999999", "123456789012345678901234567890",
                "0.000000000000000000000000000000000000000000001", "1,5", "- 5", "-", "+", "e5", "E", "-e", "x", "1x",
                " 1.5", "\t-2.5e-3", "1.7976931348623157e308", "1.7976931348623159e308", "4.9e-324", "2.4e-324",
                "2.5e-324", "3.4028235e38", "3.4028236e38", "1.4e-45", "0.7e-45", "0.8e-45", "1.00000000000000011102230246251565404",
                "9007199254740993", "9007199254740992.5", "16777217", "16777216.5", "1e23", "8.41e21", "0.1", "-0.3"]


def gen_reader(rng, n_random):
    ops = []
    for t in INT_TOKENS + FLOAT_TOKENS:
        ops.append("rul " + hexs(t))
        ops.append("rl " + hexs(t))
        ops.append("rd " + hexs(t))
        ops.append("rf " + hexs(t))
    alphabet = "0123456789" * 3 + "+-..eE" + "infNa x"
    for _ in range(n_random):
        n = rng.randrange(1, 14)
        t = "".join(rng.choice(alphabet) for _ in range(n))
        if not t.strip(" "):
            continue
        ops.append(rng.choice(["rul ", "rl ", "rd ", "rf "]) + hexs(t))
        # well-formed decimal with optional junk
        t = rng.choice(["", "-", "+"]) + str(rng.randrange(0, 10 ** rng.randrange(1, 22)))
        if rng.random() < 0.6:
            t += "." + "".join(rng.choice("0123456789") for _ in range(rng.randrange(0, 12)))
        if rng.random() < 0.5:
            t += rng.choice("eE") + rng.choice(["", "-", "+"]) + str(rng.randrange(0, 400))
        t += rng.choice(["", "", "x", "e", ".", "-", "f"])
        ops.append(rng.choice(["rd ", "rf ", "rul ", "rl "]) + hexs(t))
    return ops


# ------------------------------------------------------------------------------------------------ streams
def run_lines(ctx, hexe, dexe, ops, label, nontrivial=lambda op, m: True):
    """ops through the real code; M lines replayed on the Lean driver; O lines checked.  Returns found."""
    found = False
    rc, out, err = stream.run_lines(hexe, ops, timeout=1500, args=["lines"])
    if rc != 0:
        ctx.violation("harness died on stream %s (rc=%s): %s" % (label, rc, err[-600:]),
                      {"stream": label, "ops": ops[:50], "stderr": err[-3000:]})
        return True
    m_lines = [l[2:] for l in out if l.startswith("M ")]
    o_lines = [l[2:] for l in out if l.startswith("O ")]
    if len(m_lines) != len(ops) or len(o_lines) != len(ops):
        ctx.violation("harness output incomplete on stream %s" % label,
                      {"stream": label, "ops": len(ops), "M": len(m_lines), "O": len(o_lines)})
        return True
    dops, want = [], []
    for m in m_lines:
        a, _, b = m.partition(" | ")
        dops.append(a)
        want.append(b)
    rc2, got, err2 = stream.run_lines(dexe, dops, timeout=1500)
    fails = [(i, o_lines[i]) for i in range(len(ops)) if not o_lines[i].startswith("ok")]
    for i, op in enumerate(ops):
        ctx.count((label, op), nontrivial=nontrivial(op, m_lines[i]))
        ctx.hist(label + ".op", op.split()[0])
        if op.split()[0] in ("f32", "f64"):
            ctx.hist(label + ".textlen", len(want[i]))
            ctx.hist(label + ".notation", "special" if dops[i].startswith("sv") else ("exp" if "e" in want[i] else "dec"))
    for i in range(min(2, len(ops))):
        ctx.sample({"stream": label, "op": ops[i], "impl": m_lines[i], "oracle": o_lines[i]})
    if fails:
        i, why = fails[0]
        ctx.violation("property oracle fails on the real code (%d of %d cases in stream %s): %s" % (len(fails), len(ops), label, why),
                      {"stream": label, "op": ops[i], "oracle": why, "impl": m_lines[i],
                       "further": [ops[j] + "  =>  " + w for j, w in fails[1:6]],
                       "replay_cmd": "echo '%s' | <harness c19 (asan)> lines" % ops[i]})
        found = True
    if rc2 != 0 or len(got) != len(dops):
        ctx.violation("Lean driver failed on stream %s (rc=%s)" % (label, rc2), {"stream": label, "stderr": err2[-2000:]},
                      no_input=True)
        return True
    d = stream.first_diff(want, got)
    if d is not None:
        ndiff = sum(1 for a, b in zip(want, got) if a != b)
        ctx.violation("model and implementation disagree (%d lines) in stream %s: op %s impl=%r model=%r" % (
            ndiff, label, ops[d], want[d], got[d]),
            {"stream": label, "op": ops[d], "driver_op": dops[d], "impl": want[d], "model": got[d]}, no_input=not found)
        found = True
    return found


def parse_summary(out):
    d = {}
    firsts = []
    for l in out:
        if l.startswith("first: "):
            firsts.append(l[7:])
        else:
            for kv in l.split():
                if "=" in kv:
                    k, v = kv.split("=", 1)
                    d[k] = int(v)
    return d, firsts


def run_exhaustive(ctx, fexe, mode, ranges, label, threads):
    """ranges: list of (lo, hi).  Returns found."""
    found = False
    tot = {}
    for lo, hi in ranges:
        rc, o, e = sh([fexe, mode, str(lo), str(hi), str(threads)], timeout=3000)
        if rc != 0:
            ctx.violation("exhaustive run %s [%d,%d) died rc=%s: %s" % (mode, lo, hi, rc, e[-500:]),
                          {"stream": label, "mode": mode, "lo": lo, "hi": hi, "stderr": e[-2000:]})
            return True
        d, firsts = parse_summary(o.splitlines())
        for k, v in d.items():
            tot[k] = max(tot.get(k, 0), v) if k.startswith("max_") else tot.get(k, 0) + v
        bad = d.get("overflows", 0) + d.get("foreign", 0) + d.get("roundtrip_mismatches", 0)
        if bad and not found:
            ctx.violation("%s: %d values store more bytes than reserved, %d wrong/foreign texts, %d do not read back identically "
                          "(range [%d,%d)); first: %s" % (mode, d.get("overflows", 0), d.get("foreign", 0),
                                                           d.get("roundtrip_mismatches", 0), lo, hi, firsts[:1]),
                          {"stream": label, "mode": mode, "lo": lo, "hi": hi, "summary": d, "first": firsts,
                           "replay_cmd": "<harness c19 (fast)> %s %d %d %d" % (mode, lo, hi, threads)})
            found = True
    n = tot.get("evaluated", 0)
    ctx.count(None, n=n)
    ctx.cov["distinct_nontrivial"] += n        # every value of an enumerated range is a distinct input
    ctx.cov.setdefault("exhaustive", {})[label] = tot
    return found


# ------------------------------------------------------------------------------------------------ guided search
def obligation_search(ctx, hexe, dexe, consts):
    """The length obligation evaluated on the model over *all* (sign, digit count, point) classes a float / double can
    produce (the text length depends on nothing else — theorem fmtShortest_length); the first class whose text + NUL
    exceeds the regenerated reservation is instantiated with a real value and replayed on util::ToString."""
    found = False
    report = {}
    for typ, maxd, plo, phi, kb in (("f32", 9, -45, 39, int(consts.get("kBytesFloat", 0))),
                                    ("f64", 17, -324, 309, int(consts.get("kBytesDouble", 0)))):
        classes = [(neg, n, p) for neg in (1, 0) for n in range(1, maxd + 1) for p in range(plo, phi + 1)]
        ops = ["len %d 0 %d %d" % c for c in classes]
        rc, out, err = stream.run_lines(dexe, ops, timeout=600)
        if rc != 0 or len(out) != len(ops):
            ctx.violation("Lean driver failed in the obligation search", {"stderr": err[-2000:]}, no_input=True)
            return True
        lens = [int(x) for x in out]
        worst = max(lens)
        ctx.count(("obligation", typ, len(classes)), n=len(classes))
        report[typ] = {"classes": len(classes), "model_max_text": worst, "needs_bytes": worst + 1, "reserved": kb}
        mx = int(consts.get("kToStringMaxBytes", 0))
        over = sorted([(n, abs(p), -neg, neg, p, ln) for (neg, n, p), ln in zip(classes, lens) if ln + 1 > min(kb, mx)])
        if not over:
            continue
        log("  [C19] model: %d of %d %s classes need more than the %d reserved bytes (max %d + NUL)" % (
            len(over), len(classes), typ, kb, worst))
        report[typ]["classes_over"] = len(over)
        for n, _, _, neg, p, ln in over[:40]:
            rc, o, e = sh([hexe, "find-class", typ, str(neg), str(n), str(p), str(ctx.seed)], timeout=120)
            if rc != 0 or not o.startswith("found"):
                continue
            bits = int(o.split()[1])
            rc, lines, e = stream.run_lines(hexe, ["%s %d" % (typ, bits)], timeout=120, args=["lines"])
            oline = [l for l in lines if l.startswith("O ")]
            mline = [l for l in lines if l.startswith("M ")]
            if rc == 0 and oline and oline[0].startswith("O FAIL"):
                rc2, o2, e2 = sh([hexe, "exact", typ, str(bits)], timeout=120)
                asan = [l for l in e2.splitlines() if "ERROR: AddressSanitizer" in l or l.strip().startswith("WRITE of size")
                        or "is located" in l][:4]
                rc3, o3, e3 = sh([hexe, "filestream", typ, str(bits)], timeout=120)
                asan_fs = [l for l in e3.splitlines() if "ERROR: AddressSanitizer" in l or "is located" in l][:3]
                ctx.violation(
                    "util::ToString(%s) stores %d bytes (text %d + NUL) into the ToStringBuf<%s>::kBytes = %d reservation "
                    "(class sign=%d digits=%d point=%d found from the broken length obligation): %s" % (
                        "float" if typ == "f32" else "double", ln + 1, ln, "float" if typ == "f32" else "double", kb,
                        neg, n, p, oline[0][2:]),
                    {"stream": "obligation", "type": typ, "bits": bits, "class": {"neg": neg, "digits": n, "point": p},
                     "model_text_len": ln, "reserved": kb, "kToStringMaxBytes": mx, "impl": mline[:1], "oracle": oline[0],
                     "asan_exact_block": asan, "asan_rc": rc2, "asan_filestream": asan_fs, "filestream_rc": rc3,
                     "classes_over": len(over),
                     "replay_cmd": "echo '%s %d' | <harness c19> lines ; <harness c19 (asan)> exact %s %d" % (typ, bits, typ, bits)})
                found = True
                break
    ctx.cov["obligation_search"] = report
    return found


# ------------------------------------------------------------------------------------------------ tie (iii): ARPA files
def arpa_tie(ctx, hexe):
    """Probabilities / back-offs in ARPA files written by lmplz, filter and interpolate: every float token read with
    FilePiece::ReadFloat equals strtof(token) bit for bit, and printing it again with util::ToString gives the token."""
    ok, bdir, lg = repo.build("tools")
    if not ok:
        ctx.cov["arpa_tie"] = {"skipped": "tools do not build: " + lg[-300:]}
        return False
    bins = {n: os.path.join(bdir, "bin", n) for n in ("lmplz", "filter", "interpolate")}
    wd = os.path.join(SCRATCH, "c19-arpa-%d" % os.getpid())
    shutil.rmtree(wd, ignore_errors=True)
    os.makedirs(wd)
    rng = ctx.rng
    found = False
    rep = {"files": 0, "tokens": 0, "skipped": []}
    try:
        words = ["w%d" % i for i in range(rng.randrange(30, 120))]
        weights = [1.0 / (i + 1) for i in range(len(words))]
        files = []
        bases = []
        nsent = 400 if ctx.tier == "quick" else 6000
        for k in range(2):
            text = "\n".join(" ".join(rng.choices(words, weights)[0] for _ in range(rng.randrange(1, 12)))
                             for _ in range(nsent)) + "\n"
            base = os.path.join(wd, "m%d" % k)
            arpa = os.path.join(wd, "lmplz%d.arpa" % k)
            rc, o, e = sh([bins["lmplz"], "-o", "3", "-S", "40M", "--discount_fallback", "--intermediate", base,
                           "--arpa", arpa], timeout=300, input=text.encode())
            if rc != 0 or not os.path.exists(arpa):
                rep["skipped"].append("lmplz rc=%s %s" % (rc, e[-200:]))
                continue
            files.append(("lmplz", arpa))
            bases.append(base)
        if files:
            vocab = os.path.join(wd, "vocab.txt")
            open(vocab, "w").write(" ".join(rng.sample(words, len(words) // 2)) + "\n")
            out = os.path.join(wd, "filtered.arpa")
            rc, o, e = sh([bins["filter"], "single", "model:" + files[0][1], out], timeout=300,
                          input=open(vocab, "rb").read())
            if rc == 0 and os.path.exists(out):
                files.append(("filter", out))
            else:
                rep["skipped"].append("filter rc=%s %s" % (rc, e[-200:]))
        if len(bases) == 2:
            out = os.path.join(wd, "interp.arpa")
            w = rng.choice([0.5, 0.3, 0.81])
            rc, o, e = sh([bins["interpolate"], "-m", bases[0], bases[1], "-w", repr(w), repr(1 - w)], timeout=300, binary=True)
            if rc == 0 and o:
                open(out, "wb").write(o)
                files.append(("interpolate", out))
            else:
                rep["skipped"].append("interpolate rc=%s" % rc)
        for tool, path in files:
            rc, o, e = sh([hexe, "arpa", path], timeout=600)
            d, firsts = parse_summary(o.splitlines())
            if rc != 0 or "tokens" not in d:
                ctx.violation("harness died reading the ARPA written by %s (rc=%s): %s" % (tool, rc, e[-400:]),
                              {"stream": "arpa", "tool": tool, "stderr": e[-2000:]})
                found = True
                continue
            rep["files"] += 1
            rep["tokens"] += d["tokens"]
            rep[tool] = rep.get(tool, 0) + d["tokens"]
            ctx.count(("arpa", tool, d["tokens"]), nontrivial=d["tokens"] > 10, n=d["tokens"])
            ctx.hist("arpa.tool", tool)
            if d.get("read_mismatches", 0) or d.get("reprint_mismatches", 0):
                keep = os.path.join(ctx.replay_dir, "arpa_%s_%d.arpa" % (tool, ctx.seed))
                os.makedirs(ctx.replay_dir, exist_ok=True)
                shutil.copy(path, keep)
                ctx.violation("ARPA written by %s: %d of %d float tokens are not read back identically by FilePiece::ReadFloat, "
                              "%d do not re-print as themselves; %s" % (tool, d.get("read_mismatches", 0), d["tokens"],
                                                                         d.get("reprint_mismatches", 0), firsts[:1]),
                              {"stream": "arpa", "tool": tool, "file": keep, "summary": d, "first": firsts,
                               "replay_cmd": "<harness c19> arpa %s" % keep})
                found = True
    finally:
        shutil.rmtree(wd, ignore_errors=True)
    ctx.cov["arpa_tie"] = rep
    return found


def corpus_ops(ctx):
    """The committed hard-input corpus (checks/C19_hard.py): always first."""
    fl = C19_hard.load(C19_hard.FLOATS)
    db = C19_hard.load(C19_hard.DOUBLES)
    for _, cls in fl:
        for c in cls.split(","):
            ctx.hist("corpus.f32.class", c)
    ctx.cov["hard_corpus"] = {"floats": len(fl), "doubles": len(db)}
    return ["f32 %d" % b for b, _ in fl], ["f64 %d" % b for b, _ in db]


def stratified(rng, total_bits, slices, width):
    """`slices` aligned sub-ranges of `width` values spread over [0, 2^total_bits): one random offset per stratum."""
    out = []
    stride = (1 << total_bits) // slices
    for s in range(slices):
        lo = s * stride + rng.randrange(0, max(1, stride - width))
        out.append((lo, lo + width))
    return out


# ------------------------------------------------------------------------------------------------ main
def run(ctx):
    try:
        run_inner(ctx)
    finally:
        C19_util.cleanup()


def run_inner(ctx):
    problems, consts = flow.proof_phase(ctx, "C19", probe="probe_C19.cc", probe_flags=PROBE_EXTRA, required=REQUIRED,
                                        drivers=["drv_C19"])
    dexe = lean.driver_path("drv_C19")
    if problems:
        ok, out = lean.lake_build(["drv_C19"])       # the driver does not depend on the (possibly broken) theorems
        if not ok:
            problems.append("driver drv_C19 does not build: " + out[-1500:])
    builds = {}
    for v in ("asan", "fast"):
        ok, exe, lg = C19_util.build(v)
        if not ok:
            problems.append(lg)
        builds[v] = C19_util.private_copy(exe) if ok else None
    if not builds["asan"] or not builds["fast"] or not os.path.exists(dexe) or not consts:
        flow.report_obligation_failures(ctx, problems or ["harness / driver / probe unavailable"], False)
        return
    hexe, fexe = builds["asan"], builds["fast"]
    quick = ctx.tier == "quick"
    rng = ctx.rng
    found = False

    # 1. the length obligation evaluated on the model, replayed on the real code when it is exceeded
    found |= obligation_search(ctx, hexe, dexe, consts)

    # 0. the committed corpus of hard inputs (double-rounding sensitive, near-midpoint, ties, bignum fallback, 9 digits)
    hard32, hard64 = corpus_ops(ctx)
    if hard32:
        found |= run_lines(ctx, hexe, dexe, hard32, "hard-float")
    if hard64:
        found |= run_lines(ctx, hexe if quick else fexe, dexe, hard64 if not quick else
                           [hard64[i] for i in sorted(rng.sample(range(len(hard64)), min(len(hard64), 2500)))], "hard-double")

    # 2. model fidelity + property oracle, value by value
    f32 = gen_f32(rng, 3000 if quick else 200000)
    f64 = gen_f64(rng, 3000 if quick else 200000)
    found |= run_lines(ctx, hexe if quick else fexe, dexe, ["f32 %d" % b for b in f32], "float",
                       nontrivial=lambda op, m: m.startswith("sf") and not m.startswith("sf 0 0 ") and not m.startswith("sf 1 0 "))
    found |= run_lines(ctx, hexe if quick else fexe, dexe, ["f64 %d" % b for b in f64], "double",
                       nontrivial=lambda op, m: m.startswith("sf") and not m.startswith("sf 0 0 ") and not m.startswith("sf 1 0 "))
    found |= run_lines(ctx, hexe, dexe, gen_ints(rng, 300 if quick else 20000), "integer",
                       nontrivial=lambda op, m: len(op.split()[1]) > 1)
    found |= run_lines(ctx, hexe, dexe, gen_reader(rng, 1500 if quick else 60000), "reader",
                       nontrivial=lambda op, m: " | err" not in m)

    # 2b. tie (iii): ARPA files written by the tools
    found |= arpa_tie(ctx, hexe)

    # 3. enumeration on the real code (evidence about the code, not a theorem)
    thr = min(16, NPROC)
    if quick:
        found |= run_exhaustive(ctx, fexe, "exh-f32", stratified(rng, 32, 64, 1 << 16), "float32-stratified", 4)
        found |= run_exhaustive(ctx, fexe, "exh-u32", stratified(rng, 32, 32, 1 << 16), "uint32-stratified", 4)
        found |= run_exhaustive(ctx, fexe, "exh-i32", stratified(rng, 32, 32, 1 << 16), "int32-stratified", 4)
        found |= run_exhaustive(ctx, fexe, "exh-halves", stratified(rng, 26, 16, 1 << 14), "uint64-sse-halves-stratified", 4)
    else:
        found |= run_exhaustive(ctx, fexe, "exh-f32", [(0, 1 << 32)], "float32-all", thr)
        found |= run_exhaustive(ctx, fexe, "exh-u32", [(0, 1 << 32)], "uint32-all", thr)
        found |= run_exhaustive(ctx, fexe, "exh-i32", [(0, 1 << 32)], "int32-all", thr)
        found |= run_exhaustive(ctx, fexe, "exh-halves", [(0, 100000000)], "uint64-sse-halves-all", thr)
        # is the committed hard-input corpus still what the classifier produces on this tree?  (it depends on libc and
        # on double-conversion's digit generator only; a stale corpus is a note in the evidence, not a kenlm defect —
        # the sweep above is the complete check in this tier)
        try:
            sel, totals = C19_hard.classify_floats(fexe, thr)
            have = {b for b, _ in C19_hard.load(C19_hard.FLOATS)}
            must = {int(l.split()[0]) for l in sel if set(l.split()[1].split(",")) & {"dr", "mid"}}
            ctx.cov["hard_corpus"]["reclassified"] = {"totals": totals.lstrip("# "), "dr_mid": len(must),
                                                      "missing_from_corpus": sorted(must - have)[:20]}
            if must - have:
                log("  [C19] NOTE: corpus/C19_hard_floats.txt is stale (%d dr/mid floats missing); regenerate with "
                    "`python3 -m checks.C19_hard`" % len(must - have))
        except Exception as ex:   # noqa: BLE001
            ctx.cov["hard_corpus"]["reclassified"] = {"error": str(ex)[:300]}

    ctx.cov["rule"] = ("float/double: bit patterns from every exponent x boundary mantissas, powers of ten +-ulps, every "
                       "(digit count, point) class around the decimal/exponential thresholds, specials, random bits; a case is "
                       "non-trivial when it is finite and non-zero; integers: powers of ten/two +-1, extremes, random digit "
                       "counts (non-trivial: more than one character); reader: hand-written + random tokens (non-trivial: "
                       "accepted by the real reader); enumerated ranges count every value once; distinct by op line")
    ctx.assumptions += [
        "digit generation (DoubleToAscii SHORTEST / SHORTEST_SINGLE: 1..9 / 1..17 digits, point in [-44,39] / [-323,309]) and "
        "the rounding of StringToFloat/StringToDouble are trusted third-party algorithms; exercised exhaustively for float32 in "
        "the thorough tier, by classes for double",
        "harness compiled like a user build (-DNDEBUG): double-conversion's StringBuilder bounds asserts are off",
        "NaN: text 'NaN' for every payload (value-level round trip only); since /repo a461449 FilePiece reads 'NaN' back "
        "as a NaN wherever it stands in the window (the enumeration reads every NaN pattern back inside a batch)",
        "x86-64: ToString(uint64_t) takes the SSE2 path (regenerated sse2Path)",
    ]
    flow.report_obligation_failures(ctx, problems, found)


def replay(ctx, path):
    body = json.load(open(path))
    ok, hexe, lg = C19_util.build("asan")
    if not ok:
        log(lg)
        return 2
    hexe = C19_util.private_copy(hexe)
    op = body.get("op") or ("%s %d" % (body["type"], body["bits"]) if "bits" in body else None)
    if not op:
        log("nothing to replay in %s" % path)
        return 2
    rc, lines, err = stream.run_lines(hexe, [op], timeout=120, args=["lines"])
    for l in lines:
        print(l)
    return 1 if any(l.startswith("O FAIL") for l in lines) or rc != 0 else 0
