"""Small ARPA generator for C04 (until checks/lmgen.py of the `lm` builder reaches main).

Produces valid ARPA files of order 2..6:
  * n-gram sets are the substrings of random sentences (closed under prefix and suffix), or
    SRI-style pruned variants of those (prefix-closed, suffix gaps -> the trie must insert blanks),
  * with or without <unk> (or <UNK>), words with odd bytes, back-offs omitted / 0 / -0 / positive,
  * returns the python-side facts the layout model needs: header counts, whether <unk> was seen,
    vocabulary strings, and the *expected fixed counts* of the trie (suffix closure), computed
    independently of kenlm.
"""

ODD_WORDS = ["a", "b", "the", "of", ",", ".", "\xe9t\xe9", "na\xefve", "中文", "x_y", "1990", "<foo>", "A", "B'",
             "w#", "--", "<UNK2>"]


def fmt_float(rng, v):
    style = rng.randrange(5)
    if style == 0:
        return "%.1f" % v
    if style == 1:
        return "%.6f" % v
    if style == 2:
        return "%.7g" % v
    if style == 3:
        return "%.3e" % v
    return repr(round(v, 4))


def gen_model(rng, order=None, with_unk=None, pruned=None, size=None):
    order = order or rng.choice([2, 2, 3, 3, 3, 4, 4, 5, 6])
    with_unk = rng.random() < 0.6 if with_unk is None else with_unk
    pruned = rng.random() < 0.5 if pruned is None else pruned
    size = size or rng.choice(["tiny", "small", "small", "medium", "large"])
    nwords = {"tiny": rng.randrange(1, 4), "small": rng.randrange(3, 9), "medium": rng.randrange(8, 40),
              "large": rng.randrange(40, 300)}[size]
    nsent = {"tiny": rng.randrange(1, 3), "small": rng.randrange(2, 8), "medium": rng.randrange(5, 40),
             "large": rng.randrange(30, 120)}[size]
    pool = list(ODD_WORDS)
    rng.shuffle(pool)
    words = pool[:min(nwords, len(pool))] + ["w%d" % i for i in range(max(0, nwords - len(pool)))]
    unk_tok = None
    if with_unk:
        unk_tok = "<UNK>" if rng.random() < 0.1 else "<unk>"
    sent_vocab = list(words) + ([unk_tok] if (with_unk and rng.random() < 0.5) else [])
    # sentences -> all substrings up to `order`
    grams = [set() for _ in range(order + 1)]
    zipf = [1.0 / (i + 1) for i in range(len(sent_vocab))]
    for _ in range(nsent):
        ln = rng.choice([0, 1, 2, 3, 4, 5, 6, 8, 12])
        body = rng.choices(sent_vocab, weights=zipf, k=ln)
        s = ["<s>"] + body + ["</s>"]
        for i in range(len(s)):
            for k in range(1, order + 1):
                if i + k <= len(s):
                    grams[k].add(tuple(s[i:i + k]))
    for w in words:
        grams[1].add((w,))
    grams[1].add(("<s>",))
    grams[1].add(("</s>",))
    if with_unk:
        grams[1].add((unk_tok,))
    # every order must be non-empty: extend something if the sentences were too short
    for k in range(2, order + 1):
        if not grams[k]:
            base = sorted(g for g in grams[k - 1] if g[-1] != "</s>")
            if not base:
                base = [tuple(["<s>"] + [words[0]] * (k - 2))]
                for j in range(1, k):
                    grams[j].add(base[0][:j])
            b = rng.choice(base)
            g = b + (rng.choice(words),)
            grams[k].add(g)
            for j in range(2, k):       # keep suffix closure of the closed variant
                grams[j].add(g[-j:])
                for jj in range(1, j):
                    grams[jj].add(g[-j:][:jj])
    # prefix closure (robustness of the construction above)
    for k in range(order, 1, -1):
        for g in list(grams[k]):
            grams[k - 1].add(g[:-1])
    if pruned:
        # SRI-style pruning: drop k-grams (k >= 2) that are not the prefix of a kept (k+1)-gram.
        rate = rng.choice([0.2, 0.5, 0.8])
        for k in range(order, 1, -1):
            needed = set(g[:-1] for g in grams[k + 1]) if k < order else set()
            cand = sorted(g for g in grams[k] if g not in needed)
            for g in cand:
                if len(grams[k]) > 1 and rng.random() < rate:
                    grams[k].discard(g)
    # values: entries[k] = [(gram, line)] in file order
    uni = sorted(grams[1])
    rng.shuffle(uni)
    if with_unk and rng.random() < 0.7:      # <unk> usually first, as lmplz writes it
        uni.remove((unk_tok,))
        uni.insert(0, (unk_tok,))
    entries = {}
    for k in range(1, order + 1):
        gl = uni if k == 1 else sorted(grams[k])
        if k > 1 and rng.random() < 0.5:
            rng.shuffle(gl)
        entries[k] = []
        for g in gl:
            p = -rng.choice([0.0, 0.1, 0.30103, 1.0, 2.5]) if rng.random() < 0.15 else -rng.random() * 6
            if g == ("<s>",):
                p = -99.0
            ps = fmt_float(rng, p)
            bs = None
            if k < order:
                r = rng.random()
                if g[-1] == "</s>" and r < 0.8:
                    bs = None
                elif r < 0.15:
                    bs = None
                elif r < 0.25:
                    bs = rng.choice(["0", "-0", "0.0", "-0.0"])
                elif r < 0.3:
                    bs = fmt_float(rng, rng.random() * 0.5)
                else:
                    bs = fmt_float(rng, -rng.random() * 3)
            entries[k].append((g, ps + "\t" + " ".join(g) + (("\t" + bs) if bs is not None else "")))
    m = render(order, entries, unk_tok)
    m.update({"pruned": pruned, "size": size})
    return m


def render(order, entries, unk_tok):
    """ARPA text + the facts the layout model needs, from entries[k] = [(gram, line)] (k = 1..order)."""
    entries = {int(k): [(tuple(g), l) for g, l in v] for k, v in entries.items()}
    lines = ["", "\\data\\"]
    for k in range(1, order + 1):
        lines.append("ngram %d=%d" % (k, len(entries[k])))
    lines.append("")
    for k in range(1, order + 1):
        lines.append("\\%d-grams:" % k)
        lines += [l for _, l in entries[k]]
        lines.append("")
    lines.append("\\end\\")
    text = ("\n".join(lines) + "\n").encode("utf-8")
    grams = [set()] + [set(g for g, _ in entries[k]) for k in range(1, order + 1)]
    # expected trie counts: suffix closure (blank insertion), <unk> always counted
    closed = [set(gs) for gs in grams]
    for k in range(order, 2, -1):
        for g in closed[k]:
            closed[k - 1].add(g[1:])
    saw_unk = any(g[0] in ("<unk>", "<UNK>") for g in grams[1])
    fixed = [len(grams[1]) + (0 if saw_unk else 1)] + [len(closed[k]) for k in range(2, order + 1)]
    needs_blanks = any(len(closed[k]) != len(grams[k]) for k in range(2, order + 1))
    vocab_words = [g[0] for g, _ in entries[1] if g[0] not in ("<unk>", "<UNK>")]
    return {
        "text": text, "order": order, "counts": [len(grams[k]) for k in range(1, order + 1)],
        "fixed_counts": fixed, "saw_unk": saw_unk, "needs_blanks": needs_blanks,
        "vocab_words": vocab_words,        # in ARPA order, without <unk>
        "unk_tok": unk_tok, "entries": {k: [(list(g), l) for g, l in v] for k, v in entries.items()},
    }


def removable(entries, order, k, removed):
    """May the k-grams `removed` be deleted keeping a loadable ARPA (prefix closure, specials, vocabulary)?"""
    rem = set(tuple(g) for g, _ in removed)
    if k < order:
        if any(tuple(g[:-1]) in rem for g, _ in entries[k + 1]):
            return False
    if k == 1:
        if any(g[0] in ("<s>", "</s>", "<unk>", "<UNK>") for g in rem):
            return False
        used = set(w for kk in range(2, order + 1) for g, _ in entries[kk] for w in g)
        if any(g[0] in used for g in rem):
            return False
    return len(entries[k]) - len(removed) >= 1


def shrink(model, still_fails, max_tests=60):
    """Greedy chunked removal of n-grams (highest order first) while `still_fails(model')`."""
    order = model["order"]
    entries = {int(k): list(v) for k, v in model["entries"].items()}
    tests = 0
    for k in range(order, 0, -1):
        chunk = max(1, len(entries[k]) // 2)
        while chunk >= 1 and tests < max_tests:
            i = 0
            while i < len(entries[k]) and tests < max_tests:
                removed = entries[k][i:i + chunk]
                if removed and removable(entries, order, k, removed):
                    trial = dict(entries)
                    trial[k] = entries[k][:i] + entries[k][i + chunk:]
                    tests += 1
                    if still_fails(render(order, trial, model["unk_tok"])):
                        entries = trial
                        continue
                i += chunk
            if chunk == 1:
                break
            chunk //= 2
    return render(order, entries, model["unk_tok"]), tests


def gen_queries(rng, model, n=None):
    words = model["vocab_words"] + ["<unk>", "OOV1", "oov two".split()[0], "<s>", "</s>"]
    n = n or rng.choice([10, 30, 60])
    out = []
    for _ in range(n):
        ln = rng.choice([0, 1, 2, 3, 5, 8, 13])
        out.append(" ".join(rng.choice(words) for _ in range(ln)))
    return ("\n".join(out) + "\n").encode("utf-8")


if __name__ == "__main__":
    import random
    import sys
    r = random.Random(int(sys.argv[1]) if len(sys.argv) > 1 else 1)
    m = gen_model(r)
    sys.stdout.buffer.write(m["text"])
    sys.stderr.write(repr({k: v for k, v in m.items() if k not in ("text", "vocab_words", "entries")}) + "\n")
