"""C12 — Filter output does not depend on thread count, batch size or scheduling."""
import os
import shutil
from concurrent.futures import ThreadPoolExecutor

from vlib import flow, lean, repo
from vlib.common import fresh_scratch, log, run as sh, sha, REPO, SCRATCH, VERIF
from checks import filtergen as G

MANIFEST = {
    "text": "Lean theorems over a transition-system model of lm/filter/thread.hh + MultipleOutputBuffer + ThreadPool "
            "(reader / N filter workers / output worker, three bounded FIFO queues, recycled batches, sequence numbers): for "
            "every input program, batch size, queue length, number of workers and EVERY schedule, the calls made on the "
            "output equal those of the sequential filter (ctl_output), no reachable state is dead-locked (ctl_no_deadlock) "
            "and every step decreases a measure (termination). The model of the code before the three repairs "
            "(repo_patches/10..12-fix-filter-*) is kept and the NEGATIONS are proved on it with minimal witnesses, which are "
            "replayed on the real bin/filter on every run. Tie: thread x batch-size grid on the real tool, per-order counts "
            "steered to k*b, k*b+-1, 0, all modes and both formats, every run under a timeout, outputs byte-compared with "
            "threads:1, with the Lean driver's sequential filter and with the model run under random schedules; plus stream "
            "filter-sched: the real filter_main pipeline in-process (harness/c12_sched.cc) under seeded delay injection at the "
            "KPU_KENLM_VERIF scheduling points of PCQueue/ThreadPool (several hundred perturbed schedules per quick run, watchdog, "
            "hangs confirmed by a threads:1 control and re-runs of the same seed), outputs byte-compared with threads:1.",
    "note": "Trusted: Lean kernel + standard axioms; statements in lean/Properties/C12.lean; atomicity of PCQueue Produce/Consume "
            "and FIFO exactly-once delivery are C17's theorem pcqueue_refines_fifo (cited, build-checked); real OS schedules are "
            "sampled and perturbed at the hook points, not enumerated.",
    "technique": "Lean 4 proof (inductive invariant over an executable transition system, all schedules) + differential "
                 "correspondence with the real CLI tool",
}

REQUIRED = ["KV.C12.ctl_output", "KV.C12.ctl_no_deadlock", "KV.C12.ctl_terminates", "KV.C12.ctl_queues_are_fifo", "KV.C12.pcqueue_is_fifo", "KV.C12.batch_never_exceeds_reserve", "KV.C12.ctl_output_arpa", "KV.C12.ctl_output_raw",
            "KV.C12.Old.not_ctl_no_deadlock", "KV.C12.Old.not_ctl_output_raw", "KV.C12.Old.not_ctl_output_last"]

TIMEOUT = 20


# ------------------------------------------------------------------ the witnesses of section `Old`
def witness_inputs():
    """The concrete witnesses of the negation theorems in Properties/C12.lean, section Old, as
    inputs of the real tool (threads:2 => queue 4, workers 2, as in filter_main.cc)."""
    w = []
    # B1: two orders with one n-gram each, batch_size 1
    arpa = (b"\\data\\\nngram 1=1\nngram 2=1\n\n\\1-grams:\n-1.0\ta\t-0.5\n\n\\2-grams:\n-0.3\ta a\n\n\\end\\\n")
    w.append(dict(name="B1-empty-batch-burns-sequence-number", mode="single", context=False, fmt="arpa", threads=2,
                  batch=1, vocab=b"a\n", model=arpa))
    # B2: one raw line, batch_size 2
    w.append(dict(name="B2-raw-last-partial-batch-never-sent", mode="single", context=False, fmt="raw", threads=2,
                  batch=2, vocab=b"a\n", model=b"a\t1\n"))
    # B3 (a): five equal-length unigrams, batch_size 1, one sentence: the fifth reuses the first batch
    arpa = b"\\data\\\nngram 1=5\n\n\\1-grams:\n" + b"".join(b"-1.0\tw%d\n" % i for i in range(5)) + b"\n\\end\\\n"
    w.append(dict(name="B3-stale-last-empty-buffer", mode="multiple", context=False, fmt="arpa", threads=2, batch=1,
                  vocab=b"w0 w1 w2 w3 w4\n", model=arpa))
    # B3 (b): no undefined behaviour involved: 1 unigram, 10 bigrams, batch_size 2, context mode; the fifth bigram
    # batch reuses the batch of the first; "<s> b" (context all tags => all files) then "a c" (same length as "a b")
    big = [b"-0.3\ta b", b"-0.3\ta b", b"-0.3\tb a", b"-0.3\tb a", b"-0.3\tb a", b"-0.3\tb a", b"-0.3\tb a", b"-0.3\tb a",
           b"-0.3\t<s> b", b"-0.3\ta c"]
    arpa = (b"\\data\\\nngram 1=1\nngram 2=10\n\n\\1-grams:\n-1.0\ta\t-0.5\n\n\\2-grams:\n" + b"".join(l + b"\n" for l in big)
            + b"\n\\end\\\n")
    w.append(dict(name="B3-stale-last-wrong-file", mode="multiple", context=True, fmt="arpa", threads=2, batch=2,
                  vocab=b"b\na\n", model=arpa))
    return w


class Env:
    def __init__(self, ctx, fbin, dexe):
        self.ctx = ctx
        self.fbin = fbin
        self.work = fresh_scratch("c12_%d_%d" % (ctx.seed, os.getpid()))
        self.drv = G.Driver(dexe)
        self.n = 0
        self.found = 0

    def paths(self, vocab, model):
        self.n += 1
        vp = os.path.join(self.work, "v%d.txt" % self.n)
        mp = os.path.join(self.work, "m%d.txt" % self.n)
        open(vp, "wb").write(vocab)
        open(mp, "wb").write(model)
        return vp, mp


def run_config(env, case, threads, batch, tag, timeout=TIMEOUT):
    return G.run_filter(env.fbin, env.work, tag, case["mode"], case["context"], case["fmt"], threads, batch,
                        case["vp"], case["model"], timeout=timeout, phrase=bool(case.get("phrase")))


def classify(ref_files, st, files, multiple):
    """None if the threaded run equals the reference, else a short description"""
    if st != "ok":
        return st
    return G.same_files(ref_files, files, multiple)


def shrink_model(env, case, threads, batch, kind):
    """Greedy line removal on the model file while the same kind of failure persists."""
    if case["fmt"] == "raw":
        lines = case["model"].split(b"\n")
        build = lambda ls: b"\n".join(ls)
        orders = None
    else:
        orders = [list(o) for o in case["orders"]]
    tests = 0

    def arpa_bytes(ords):
        out = [b"\\data\\\n"] + [b"ngram %d=%d\n" % (i + 1, len(o)) for i, o in enumerate(ords)] + [b"\n"]
        for i, o in enumerate(ords):
            out.append(b"\\%d-grams:\n" % (i + 1))
            out += [l + b"\n" for l in o]
            out.append(b"\n")
        out.append(b"\\end\\\n")
        return b"".join(out)

    def fails(model):
        c = dict(case, model=model)
        st1, ref, _ = run_config(env, c, 1, batch, "sref", timeout=10)
        if st1 != "ok":
            return False
        for _ in range(2):
            st, files, _ = run_config(env, c, threads, batch, "sthr", timeout=6)
            d = classify(ref, st, files, case["mode"] == "multiple")
            if d is not None and (d == kind or (kind not in ("hang", "crash", "error") and d not in ("hang", "crash", "error"))):
                return True
        return False

    if orders is None:
        cur = lines
        i = 0
        while i < len(cur) and tests < 40:
            cand = cur[:i] + cur[i + 1:]
            tests += 1
            if cand and fails(build(cand)):
                cur = cand
            else:
                i += 1
        return build(cur)
    cur = orders
    for oi in range(len(cur)):
        # halves first, then single lines
        step = max(1, len(cur[oi]) // 2)
        while step >= 1 and tests < 40:
            i = 0
            changed = False
            while i < len(cur[oi]) and tests < 40:
                cand = [list(o) for o in cur]
                del cand[oi][i:i + step]
                tests += 1
                if fails(arpa_bytes(cand)):
                    cur = cand
                    changed = True
                else:
                    i += step
            if step == 1:
                break
            step //= 2
    return arpa_bytes(cur)


def report(env, case, threads, batch, what, ref, files, cmd, st, shrink=True):
    ctx = env.ctx
    env.found += 1
    model = case["model"]
    if shrink and env.found <= 2 and "orders" in case or (shrink and env.found <= 2 and case["fmt"] == "raw"):
        try:
            model = shrink_model(env, case, threads, batch, what if what in ("hang", "crash", "error") else "diff")
        except Exception as ex:  # shrinking is best effort
            log("  shrink failed: %r" % ex)
    multiple = case["mode"] == "multiple"
    old_pred = None
    if "name" in case and st == "ok":
        # does the model of the code before the repairs predict exactly these files?
        pfx = os.path.join(env.work, "old%d" % env.n)
        oi = env.drv.job("old", case["mode"], case["context"], case["fmt"], threads, batch, 1, case["vp"], case["mp"], pfx)
        if oi.get("status") == "done":
            of = G.drv_as_tool(env.drv.files(pfx, "thr", int(oi.get("outputs", "1"))), multiple)
            old_pred = (G.same_files(files, of, multiple) is None)
    ctx.violation(
        "threaded filter differs from threads:1 (%s) for %s %s%s threads:%d batch_size:%d" % (
            what, case["mode"], "context " if case["context"] else "", case["fmt"], threads, batch),
        {"stream": "filter-threads", "name": case.get("name", "generated"),
         "replay_cmd": "timeout %d %s < MODEL   # then compare with threads:1" % (TIMEOUT, " ".join(cmd[:-2] + ["vocab:VOCAB", "OUT"])),
         "mode": case["mode"], "context": case["context"], "format": case["fmt"], "threads": threads, "batch_size": batch,
         "status": st, "difference": what, "old_model_predicts_exactly_these_files": old_pred,
         "vocab": case["vocab"].decode("latin-1"), "model_shrunk": model.decode("latin-1"),
         "model_original_bytes": len(case["model"]),
         "threads1_files": {k: v.decode("latin-1")[:2000] for k, v in ref.items()},
         "threaded_files": {k: v.decode("latin-1")[:2000] for k, v in files.items()}})


def check_case(env, case, configs, reps, pool, model_seeds=2):
    """Reference = threads:1 on the real tool; oracle = driver's sequential filter; then the grid."""
    ctx = env.ctx
    multiple = case["mode"] == "multiple"
    vp, mp = env.paths(case["vocab"], case["model"])
    case["vp"], case["mp"] = vp, mp
    st1, ref, cmd1 = run_config(env, case, 1, 1, "ref")
    pfx = os.path.join(env.work, "d%d" % env.n)
    bad = False
    if case.get("phrase"):
        # phrase mode: the reference must respect the Tiles lower bound (C11); the grid compares with it byte for byte
        if st1 != "ok":
            ctx.violation("threads:1 phrase run failed (%s)" % st1, {"cmd": cmd1, "model": case["model"].decode("latin-1"),
                                                                      "vocab": case["vocab"].decode("latin-1")})
            return True
        d, kind = G.phrase_verdict(case, ref, env.drv, vp, mp, pfx)
        if d is not None:
            ctx.violation("phrase mode threads:1: " + d, {"cmd": cmd1, "model": case["model"].decode("latin-1"),
                                                            "vocab": case["vocab"].decode("latin-1")}, no_input=(kind != "tool"))
            return True
        return grid(env, case, configs, reps, pool, ref, multiple) or bad
    info = env.drv.job("fixed", case["mode"], case["context"], case["fmt"], 1, 1, 0, vp, mp, pfx)
    if info["head"] == "error":
        if st1 == "ok":
            ctx.violation("driver rejects an input the tool accepts", {"case": repr(case)[:3000], "driver": info["raw"]}, no_input=True)
            return True
        return False
    if st1 != "ok":
        ctx.violation("threads:1 run failed (%s) on an input the model accepts" % st1,
                      {"cmd": cmd1, "model": case["model"].decode("latin-1"), "vocab": case["vocab"].decode("latin-1")})
        return True
    nout = int(info.get("outputs", "1"))
    seqf = G.drv_as_tool(env.drv.files(pfx, "seq", nout), multiple)
    d = G.same_files(ref, seqf, multiple)
    if d is not None:
        ctx.violation("sequential filter of the model differs from bin/filter threads:1: " + d,
                      {"stream": "filter-threads", "cmd": cmd1, "model": case["model"].decode("latin-1"),
                       "vocab": case["vocab"].decode("latin-1"),
                       "tool": {k: v.decode("latin-1")[:2000] for k, v in ref.items()},
                       "driver": {k: v.decode("latin-1")[:2000] for k, v in seqf.items()}})
        return True
    # the model under random schedules (checks the theorem's statement on concrete runs, cheap)
    for ms in range(model_seeds):
        t, b = ctx.rng.choice(configs)
        if t < 2:
            continue
        mi = env.drv.job("fixed", case["mode"], case["context"], case["fmt"], t, b, ctx.rng.randrange(1 << 30), vp, mp, pfx)
        ctx.count(None)
        if not (mi.get("status") == "done" and mi.get("thrEqSeq") == "true" and mi.get("logEqSeqLog") == "true" and mi.get("ub") == "false"):
            ctx.violation("model run under a random schedule is not the sequential result (theorem ctl_output contradicted?)",
                          {"driver": mi["raw"][:3000], "threads": t, "batch": b}, no_input=True)
            bad = True
    return grid(env, case, configs, reps, pool, ref, multiple) or bad


def grid(env, case, configs, reps, pool, ref, multiple):
    """the thread x batch grid on the real tool against the threads:1 reference"""
    ctx = env.ctx
    bad = False
    jobs = []
    for (t, b) in configs:
        for r in range(reps if t > 1 else 1):
            jobs.append((t, b, r))

    def one(j):
        t, b, r = j
        return j, run_config(env, case, t, b, "t%d_b%d_r%d" % (t, b, r))

    counts = [len(o) for o in case["orders"]] if "orders" in case else [case["model"].count(b"\n")]
    for j, (st, files, cmd) in pool.map(one, jobs):
        t, b, r = j
        d = classify(ref, st, files, multiple)
        key = (case["mode"], bool(case.get("phrase")), case["context"], case["fmt"], tuple(counts), t, b, case["model"][:64])
        ctx.count(key, nontrivial=t > 1 and sum(counts) > 0)
        ctx.hist("threads", t)
        ctx.hist("phrase", bool(case.get("phrase")))
        ctx.hist("batch", b if b <= 8 else ">8")
        ctx.hist("status", st if d is None else ("VIOLATION:" + (d if d in ("hang", "crash", "error") else "diff")))
        if t > 1:
            for c in counts:
                rel = "0" if c == 0 else ("k*b" if c % b == 0 else ("k*b+1" if c % b == 1 else ("k*b-1" if c % b == b - 1 else "other")))
                ctx.hist("count_vs_batch", rel)
        if d is not None:
            if env.found < 6:
                report(env, case, t, b, d, ref, files, cmd, st)
            else:
                env.found += 1
            bad = True
            if env.found >= 6:
                break
    return bad


def gen_case(rng, tier):
    if rng.random() < 0.2:
        case = G.gen_phrase_case(rng, tier)
        case["b"] = rng.choice([1, 2, 3, 4, 7])
        return case
    mode = rng.choice(["single", "union", "multiple", "multiple", "multiple"])
    fmt = rng.choice(["arpa", "arpa", "raw"])
    context = rng.random() < 0.3
    equal_len = rng.random() < 0.5
    b = rng.choice([1, 2, 3, 4, 7, 16])
    nwords = rng.choice([3, 6, 12])
    words = G.gen_words(rng, nwords, equal_len)
    case = dict(mode=mode, context=context, fmt=fmt, b=b)
    if fmt == "arpa":
        norders = rng.choice([1, 2, 3, 3, 4])
        counts = [G.steer_count(rng, b, cap=40 if tier == "quick" else 120) for _ in range(norders)]
        model, orders = G.gen_arpa(rng, words, counts, equal_len=equal_len, cr=rng.random() < 0.1, comments=rng.random() < 0.2)
        case.update(model=model, orders=orders)
    else:
        n = G.steer_count(rng, b, cap=60 if tier == "quick" else 200)
        model, lines = G.gen_raw(rng, words, n, equal_len=equal_len, last_newline=rng.random() < 0.9)
        case.update(model=model)
    if mode == "single":
        case["vocab"] = G.gen_vocab_single(rng, words)
    else:
        case["vocab"] = G.gen_sentences(rng, words, messy=not equal_len)
    return case


# ------------------------------------------------------------------ perturbed schedules of the real Controller
SCHED_TIMEOUT = 40


def build_sched_harness(bdir):
    """harness/c12_sched.cc = lm/filter/filter_main.cc in-process + a delay hook at the KPU_KENLM_VERIF points"""
    src = os.path.join(VERIF, "harness", "c12_sched.cc")
    key = sha(repo.tree_hash(), open(src, "rb").read(), "c12_sched-v1")
    out = os.path.join(SCRATCH, "build", repo.tree_hash(), "harness")
    os.makedirs(out, exist_ok=True)
    exe = os.path.join(out, "c12_sched_" + key)
    if os.path.exists(exe):
        return True, exe, "cached"
    tmp = exe + ".tmp%d" % os.getpid()
    lib = os.path.join(bdir, "lib")
    cmd = ["g++", "-std=c++11", "-O1", "-g", "-w", "-UNDEBUG", "-DKPU_KENLM_VERIF", "-DKENLM_MAX_ORDER=6", "-I", REPO, "-pthread",
           src, os.path.join(lib, "libkenlm_filter.a"), os.path.join(lib, "libkenlm.a"), os.path.join(lib, "libkenlm_util.a"),
           "-lboost_thread", "-lboost_system", "-lz", "-lbz2", "-llzma", "-lrt", "-o", tmp]
    rc, o, e = sh(cmd, timeout=600)
    if rc != 0:
        return False, None, "harness c12_sched.cc does not compile against the current tree:\n" + (o + e)[-3000:]
    os.replace(tmp, exe)
    return True, exe, "built"


def sched_run(env, hexe, case, threads, batch, seed, tag, timeout=SCHED_TIMEOUT, permille=200, max_stalls=60):
    """one perturbed schedule of the real pipeline; returns (status, files, cmd)"""
    prefix = os.path.join(env.work, "sch_%s_" % tag)
    for fn in os.listdir(env.work):
        if fn.startswith("sch_%s_" % tag):
            os.unlink(os.path.join(env.work, fn))
    cmd = [hexe, str(seed), str(permille), str(max_stalls)] + G.tool_cmd(
        "filter", case["mode"], case["context"], case["fmt"], threads, batch, case["vp"], prefix, bool(case.get("phrase")))[1:]
    rc, o, e = sh(cmd, timeout=timeout, input=case["model"], binary=True)
    if rc == "timeout":
        st = "hang"
    elif rc == 0:
        st = "ok"
    elif isinstance(rc, int) and (rc < 0 or rc >= 126):
        st = "crash"
    else:
        st = "error"
    return st, G.collect(prefix, case["mode"] == "multiple"), cmd


def gen_sched_case(rng):
    """enough batches in flight at the same time: small batches, 40..120 n-grams, equal-length lines half of the time"""
    mode = rng.choice(["single", "union", "multiple", "multiple"])
    fmt = rng.choice(["arpa", "arpa", "raw"])
    equal_len = rng.random() < 0.5
    words = G.gen_words(rng, rng.choice([6, 12]), equal_len)
    case = dict(mode=mode, context=rng.random() < 0.2, fmt=fmt)
    if fmt == "arpa":
        counts = [rng.randrange(8, 50) for _ in range(rng.choice([2, 3]))]
        model, orders = G.gen_arpa(rng, words, counts, equal_len=equal_len)
        case.update(model=model, orders=orders)
    else:
        model, lines = G.gen_raw(rng, words, rng.randrange(40, 120), equal_len=equal_len)
        case.update(model=model)
    case["vocab"] = G.gen_vocab_single(rng, words, frac=0.8) if mode == "single" else G.gen_sentences(rng, words, messy=not equal_len)
    return case


def sched_stream(env, hexe, pool):
    """stream `filter-sched`: the real Controller / workers / PCQueues under seeded delay injection at the
    scheduling points; every run byte-compared with bin/filter threads:1."""
    ctx = env.ctx
    ncases = 16 if ctx.tier == "quick" else 80
    nsched = 30 if ctx.tier == "quick" else 60
    for ci in range(ncases):
        case = gen_sched_case(ctx.rng)
        multiple = case["mode"] == "multiple"
        vp, mp = env.paths(case["vocab"], case["model"])
        case["vp"], case["mp"] = vp, mp
        st1, ref, cmd1 = run_config(env, case, 1, 1, "sref")
        if st1 != "ok":
            ctx.violation("threads:1 run failed (%s)" % st1, {"cmd": cmd1, "model": case["model"].decode("latin-1")})
            return True
        jobs = []
        for si in range(nsched):
            jobs.append((ctx.rng.choice([2, 2, 3, 4]), ctx.rng.choice([1, 1, 2, 3]), ctx.rng.randrange(1, 1 << 30), si))

        def one(j):
            t, b, seed, si = j
            return j, sched_run(env, hexe, case, t, b, seed, "c%d_s%d" % (ci, si))

        for j, (st, files, cmd) in pool.map(one, jobs):
            t, b, seed, si = j
            d = classify(ref, st, files, multiple)
            ctx.count(("sched", case["model"][:64], t, b, seed), nontrivial=True)
            ctx.hist("sched_status", st if d is None else ("VIOLATION:" + (d if d in ("hang", "crash", "error") else "diff")))
            ctx.hist("sched_threads", t)
            if d is None:
                continue
            confirmed = None
            if d == "hang":
                # a hang is reported only when the machine is demonstrably alive and the same seed fails again
                cst, cfiles, _ = sched_run(env, hexe, case, 1, b, seed, "ctl", timeout=SCHED_TIMEOUT)
                again = []
                for r in range(3):
                    st2, f2, _ = sched_run(env, hexe, case, t, b, seed, "re%d" % r, timeout=2 * SCHED_TIMEOUT)
                    again.append(classify(ref, st2, f2, multiple))
                    if again[-1] is not None:
                        break
                confirmed = {"control_threads1": cst, "reruns": again}
                if cst != "ok" or all(a is None for a in again):
                    ctx.hist("sched_unconfirmed_timeouts", 1)
                    log("  [C12] schedule timeout not confirmed (control=%s, reruns=%s): not reported" % (cst, again))
                    continue
            ctx.violation(
                "perturbed schedule of the real Controller differs from threads:1 (%s) for %s %s threads:%d batch_size:%d seed %d" % (
                    d, case["mode"], case["fmt"], t, b, seed),
                {"stream": "filter-sched", "replay_cmd": " ".join(cmd) + " < MODEL   # compare with bin/filter threads:1",
                 "status": st, "difference": d, "confirmation": confirmed, "threads": t, "batch_size": b, "sched_seed": seed,
                 "mode": case["mode"], "context": case["context"], "format": case["fmt"],
                 "vocab": case["vocab"].decode("latin-1"), "model": case["model"].decode("latin-1"),
                 "threads1_files": {k: v.decode("latin-1")[:1500] for k, v in ref.items()},
                 "perturbed_files": {k: v.decode("latin-1")[:1500] for k, v in files.items()}})
            return True
    return False


# ------------------------------------------------------------------ large batches of short lines
def gen_large_case(rng, fmt):
    """70..140 k lines of at most 15 bytes (std::string small-buffer) in ONE section, so that a batch larger than 65536
    lines fills up: InputBuffer keeps a StringPiece into every line and must never reallocate `lines_`."""
    n = rng.randrange(70000, 140000)
    words = [b"a", b"b", b"c", b"d", b"e", b"f", b"gh", b"ij"]
    if fmt == "raw":
        lines = [rng.choice(words) + b" " + rng.choice(words) + b"\t%d" % rng.randrange(1, 100) for _ in range(n)]
        model = b"\n".join(lines) + b"\n"
        case = dict(fmt="raw", model=model)
    else:
        uni = [b"-1.0\t" + w + b"\t-0.5" for w in words]
        big = [b"-%d.%d\t" % (rng.randrange(1, 5), rng.randrange(10)) + rng.choice(words) + b" " + rng.choice(words) for _ in range(n)]
        model = (b"\\data\\\nngram 1=%d\nngram 2=%d\n\n\\1-grams:\n" % (len(uni), n) + b"\n".join(uni) + b"\n\n\\2-grams:\n" +
                 b"\n".join(big) + b"\n\n\\end\\\n")
        case = dict(fmt="arpa", model=model, orders=[uni, big])
    assert max(len(l) for l in model.split(b"\n")) <= 15
    mode = rng.choice(["single", "union", "multiple"])
    case["mode"] = mode
    case["context"] = False
    case["vocab"] = b"a b c d e gh\n" if mode == "single" else b"a b c gh\nb d e f\n"
    return case


def large_batch_stream(env, pool):
    """class `large batch / short lines`: batch_size > 65536 with more than 65536 n-grams in one section"""
    ctx = env.ctx
    fmts = ["raw", "arpa"] if ctx.tier == "quick" else ["raw", "arpa", "raw", "arpa", "raw", "arpa"]
    for fmt in fmts:
        case = gen_large_case(ctx.rng, fmt)
        multiple = case["mode"] == "multiple"
        vp, mp = env.paths(case["vocab"], case["model"])
        case["vp"], case["mp"] = vp, mp
        st1, ref, cmd1 = run_config(env, case, 1, 1, "lref", timeout=120)
        if st1 != "ok":
            ctx.violation("threads:1 run failed (%s) on the large input" % st1, {"cmd": cmd1})
            return True
        configs = [(ctx.rng.choice([2, 3]), b) for b in ([ctx.rng.choice([65537, 100000, 1000000])] if ctx.tier == "quick"
                                                          else [65537, 100000, 1000000])]
        for t, b in configs:
            st, files, cmd = run_config(env, case, t, b, "large", timeout=120)
            d = classify(ref, st, files, multiple)
            nl = case["model"].count(b"\n")
            ctx.count(("large", fmt, case["mode"], t, b, nl), nontrivial=True)
            ctx.hist("large_batch", "%s b=%d" % (fmt, b))
            ctx.hist("status", st if d is None else ("VIOLATION:" + (d if d in ("hang", "crash", "error") else "diff")))
            if d is not None:
                ctx.violation(
                    "threaded filter differs from threads:1 (%s) on %d short lines with %s %s threads:%d batch_size:%d" % (
                        d, nl, case["mode"], fmt, t, b),
                    {"stream": "filter-threads/large-batch", "replay_cmd": " ".join(cmd) + " < MODEL  # compare with threads:1",
                     "status": st, "difference": d, "lines": nl, "vocab": case["vocab"].decode("latin-1"),
                     "model_head": case["model"][:300].decode("latin-1"),
                     "generator": "checks/C12.py gen_large_case(fmt=%r) at VERIF_SEED=%d" % (fmt, ctx.seed)})
                return True
    return False


def gen_long_case(rng, fmt):
    """class `long lines`: n-grams whose text is around or beyond 2^16 bytes (65535, 65536, 65537, ~70 k, > 2^17), a few dozen
    lines per section, so that every per-line length or offset the threaded path keeps (InputBuffer copies each line and
    remembers where its n-gram sits) crosses 16 bits; threads:1 takes no copy and is the reference."""
    lens = [65535, 65536, 65537, rng.randrange(65538, 72000), 131072 + rng.randrange(1, 50)]
    longs = [bytes([97 + i]) * 3 + b"x" * (L - 3) for i, L in enumerate(lens)]       # distinct first bytes
    short = [b"a", b"b", b"c", b"de", b"fg"]
    words = short + longs
    n = rng.randrange(12, 40)
    def bigram():
        r = rng.random()
        if r < 0.4:
            return rng.choice(short) + b" " + rng.choice(short)
        if r < 0.7:
            return rng.choice(longs) + b" " + rng.choice(short)
        if r < 0.9:
            return rng.choice(short) + b" " + rng.choice(longs)
        return rng.choice(longs) + b" " + rng.choice(longs)
    if fmt == "raw":
        lines = [bigram() + b"\t%d" % rng.randrange(1, 100) for _ in range(n)]
        case = dict(fmt="raw", model=b"\n".join(lines) + b"\n")
    else:
        uni = [b"-1.0\t" + w + b"\t-0.5" for w in words]
        big = [b"-%d.%d\t" % (rng.randrange(1, 5), rng.randrange(10)) + bigram() for _ in range(n)]
        model = (b"\\data\\\nngram 1=%d\nngram 2=%d\n\n\\1-grams:\n" % (len(uni), n) + b"\n".join(uni) + b"\n\n\\2-grams:\n" +
                 b"\n".join(big) + b"\n\n\\end\\\n")
        case = dict(fmt="arpa", model=model, orders=[uni, big])
    mode = rng.choice(["single", "union", "multiple"])
    case["mode"] = mode
    case["context"] = False
    keep = [rng.choice(longs), rng.choice(longs)]
    if mode == "single":
        case["vocab"] = b" ".join([b"a", b"b", b"de"] + keep) + b"\n"
    else:
        case["vocab"] = b"a b " + keep[0] + b" de\n" + b"b c fg " + keep[1] + b"\n"
    return case


def long_line_stream(env, pool):
    """class `long lines` (see gen_long_case): threaded runs against threads:1"""
    ctx = env.ctx
    fmts = ["raw", "arpa"] if ctx.tier == "quick" else ["raw", "arpa", "raw", "arpa"]
    for fmt in fmts:
        case = gen_long_case(ctx.rng, fmt)
        multiple = case["mode"] == "multiple"
        vp, mp = env.paths(case["vocab"], case["model"])
        case["vp"], case["mp"] = vp, mp
        st1, ref, cmd1 = run_config(env, case, 1, 1, "llref", timeout=120)
        if st1 != "ok":
            ctx.violation("threads:1 run failed (%s) on the long-line input" % st1, {"cmd": cmd1})
            return True
        for t, b in [(ctx.rng.choice([2, 3]), ctx.rng.choice([1, 4])), (2, 25000)]:
            st, files, cmd = run_config(env, case, t, b, "long", timeout=120)
            d = classify(ref, st, files, multiple)
            nl = case["model"].count(b"\n")
            ctx.count(("long", fmt, case["mode"], t, b, nl), nontrivial=True)
            ctx.hist("long_lines", "%s %s t=%d b=%d" % (fmt, case["mode"], t, b))
            ctx.hist("status", st if d is None else ("VIOLATION:" + (d if d in ("hang", "crash", "error") else "diff")))
            if d is not None:
                ctx.violation(
                    "threaded filter differs from threads:1 (%s) on lines longer than 2^16 bytes with %s %s threads:%d batch_size:%d" % (
                        d, case["mode"], fmt, t, b),
                    {"stream": "filter-threads/long-lines", "replay_cmd": " ".join(cmd) + " < MODEL  # compare with threads:1",
                     "status": st, "difference": d, "lines": nl,
                     "line_lengths": sorted(set(len(l) for l in case["model"].split(b"\n")))[-8:],
                     "generator": "checks/C12.py gen_long_case(fmt=%r) at VERIF_SEED=%d" % (fmt, ctx.seed)})
                return True
    return False


def run(ctx):
    problems, consts = flow.proof_phase(ctx, "C12", required=REQUIRED, drivers=["drv_C12"])
    ok, bdir, lg = repo.build("tools", targets=["filter", "query"])
    if not ok:
        problems.append(lg)
        flow.report_obligation_failures(ctx, problems, False)
        return
    fbin = os.path.join(bdir, "bin", "filter")
    env = Env(ctx, fbin, lean.driver_path("drv_C12"))
    found = False
    pool = ThreadPoolExecutor(max_workers=6)
    try:
        # 1. the witnesses of the negation theorems about the old code (a corpus of past failures)
        for w in witness_inputs():
            for rep in range(3):
                env.found = min(env.found, 5)
                if check_case(env, dict(w), [(w["threads"], w["batch"])], 1, pool, model_seeds=0):
                    found = True
                    break
        # 2. the grid
        ncases = 60 if ctx.tier == "quick" else 500
        reps = 3 if ctx.tier == "quick" else 5
        for ci in range(ncases):
            if env.found >= 6:
                log("  [C12] stopping the grid early: %d violations already reported/seen" % env.found)
                break
            case = gen_case(ctx.rng, ctx.tier)
            b = case["b"]
            tset = [2, 3, 8] if ctx.tier == "quick" else [2, 3, 4, 5, 8]
            ts = ctx.rng.sample(tset, 2)
            bs = sorted({b, ctx.rng.choice([1, 2, 3, 5]), 25000})
            configs = [(1, b)] + [(t, bb) for t in ts for bb in bs]
            if ci < 3:
                ctx.sample({"mode": case["mode"], "context": case["context"], "fmt": case["fmt"], "configs": configs,
                            "model_head": case["model"][:160].decode("latin-1"), "vocab_head": case["vocab"][:80].decode("latin-1")})
            if check_case(env, case, configs, reps, pool):
                found = True
        # 2b. large batches of short lines (InputBuffer must never reallocate)
        if env.found < 6 and large_batch_stream(env, pool):
            found = True
        if env.found < 6 and long_line_stream(env, pool):
            found = True
        # 3. perturbed schedules of the real pipeline (hooks at the PCQueue / ThreadPool scheduling points)
        if env.found < 6:
            okh, hexe, lgh = build_sched_harness(bdir)
            if not okh:
                problems.append(lgh)
            elif sched_stream(env, hexe, pool):
                found = True
    finally:
        pool.shutdown(wait=True)
        env.drv.close()
        shutil.rmtree(env.work, ignore_errors=True)
    ctx.cov["rule"] = ("one evaluation = one run of bin/filter (under a %d s timeout) byte-compared with threads:1, which is itself "
                       "byte-compared with the Lean driver's sequential filter; distinct by (mode, context, format, per-order "
                       "counts, threads, batch_size, input); non-trivial when threads > 1 and the input has n-grams" % TIMEOUT)
    ctx.assumptions += ["PCQueue is a bounded FIFO delivering each item exactly once (C17)",
                        "Produce/Consume atomic; thread-local work on an exclusively owned batch commutes with other threads",
                        "real schedules are chosen by the OS: each configuration is run several times"]
    flow.report_obligation_failures(ctx, problems, found)
