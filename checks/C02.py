"""C02 — Returned state is sufficient, canonical and safe for recombination."""
import os

from vlib import flow, lean, repo, stream
from vlib.common import REPO, fresh_scratch, log

from . import lmgen
from . import C01_lmq as lmq
from . import C01 as c01

MANIFEST = {
    "text": "Lean theorems: the StateFor invariant (state = what left-to-right scoring of the history produces) is "
            "established by both start states and preserved by every FullScore; under it FullScore and "
            "FullScoreForgotState return the same (textbook) probability; out-state length <= min(order-1, in+1) for any "
            "input state; states equal on (length, words[0..length)) have identical back-offs and identical results for "
            "every continuation; ==, <, Compare are a consistent total order (byte-wise memcmp on little-endian words) "
            "and == implies equal hash for State; same for Left and ChartState (after repo patch 61: the old "
            "hash_value(Left) is proved inconsistent with == by a witness). Tied to the code by the lm-query stream (FullScore vs FullScoreForgotState vs "
            "GetState for every prefix of every walk, all pairs of equal states for recombination, six model classes) "
            "and the state-algebra stream (random + adversarial struct contents incl. garbage beyond length).",
    "note": "Trusted: Lean kernel + standard axioms; statements in lean/Properties/C02.lean; harnesses c01_lmquery.cc / "
            "c02_state.cc, drivers, comparators; MurmurHashNative as an arbitrary function of (bytes, seed).",
    "technique": "Lean 4 proof (induction/invariants over an executable model) + differential correspondence with the real code",
}

REQUIRED = ["KV.C02.state_sufficient", "KV.C02.state_canonical", "KV.C02.state_bounds", "KV.C02.fullScore_congr", "KV.C02.equal_states_equal_backoffs",
            "KV.C02.compare_trichotomy", "KV.C02.compare_sign", "KV.C02.eq_hash", "KV.C02.eq_ignores_garbage",
            "KV.C02.left_trichotomy", "KV.C02.left_eq_hash", "KV.C02.chart_eq_hash", "KV.C02.left_eq_hash_failed_before_fix"]

KEY_LEFT = "left-empty-full-hash"


# ------------------------------------------------------------------ lm-query: C02 specific oracle on the impl output
def c02_oracle(case, impl_lines, model_lines):
    """Checks on the implementation's own output (no model involved):
       bounds, FullScore vs FullScoreForgotState vs GetState (when closed), recombination of equal states."""
    problems = []
    info = lmq.parse_info(model_lines[0])
    if "error" in info or not info.get("ctx") or not info.get("distinct") or not info.get("proper"):
        return problems, 0
    N = info["order"]
    closed = bool(info["closed"])
    load = lmq.parse_load(impl_lines[0])
    pairs = 0
    for c in lmq.CLASSES:
        if load.get(c) != "ok":
            continue
        groups = {}     # (length, words) -> list of (qi, pos, backoff bits, next record or None)
        for qi, (start, ws) in enumerate(case.queries):
            I = lmq.parse_impl_line(impl_lines[1 + qi]).get(c)
            if I is None or len(I) != len(ws):
                continue
            prev_len = 1 if start == "B" else 0
            for pos, r in enumerate(I):
                out = r.F["out"]
                if out[0] > min(N - 1, prev_len + 1):
                    problems.append({"kind": "state-bounds", "cls": c, "query": qi, "pos": pos, "out_len": out[0],
                                     "in_len": prev_len, "order": N})
                if closed:
                    if r.F["len"] != r.G["len"] or r.F["out"] != r.G["out"] or r.F["out"] != r.S:
                        problems.append({"kind": "state-canonical", "cls": c, "query": qi, "pos": pos,
                                         "FullScore": [r.F["len"], r.F["out"]], "ForgotState": [r.G["len"], r.G["out"]],
                                         "GetState": r.S})
                nxt = I[pos + 1] if pos + 1 < len(I) else None
                groups.setdefault((out[0], tuple(out[1])), []).append((qi, pos, tuple(out[2]), nxt))
                prev_len = out[0]
        for key, members in groups.items():
            if len(members) < 2:
                continue
            first = members[0]
            for m in members[1:]:
                pairs += 1
                if m[2] != first[2]:
                    problems.append({"kind": "equal-states-different-backoffs", "cls": c, "state": key,
                                     "a": first[:3], "b": m[:3]})
                if first[3] is not None and m[3] is not None and first[3].w == m[3].w:
                    if first[3].F != m[3].F:
                        problems.append({"kind": "equal-states-different-continuation", "cls": c, "state": key,
                                         "word": m[3].w, "a": [first[0], first[1], first[3].F], "b": [m[0], m[1], m[3].F]})
    return problems, pairs


def lm_stream(ctx, hexe, dexe, n_cases, size):
    work = fresh_scratch("c02_%d" % os.getpid())
    found = False
    for ci in range(n_cases):
        case = lmgen.gen_case(ctx.rng, size=size, max_vocab=12)
        path = lmq.write_case(case, work, "c%d" % ci)
        ops = lmq.make_ops(path, case)
        (rc1, o1, e1), (rc2, o2, e2) = lmq.run_both(hexe, dexe, ops)
        ctx.hist("lm.order", case.meta["order"])
        ctx.hist("lm.closed", case.meta["closed"])
        if rc1 != 0 or rc2 != 0:
            ctx.violation("harness or driver died on an lm-query case", {"stream": "lm-query", "ops": ops[:30],
                          "arpa": case.arpa.decode("utf-8", "replace"), "stderr": (e1 + e2)[-2000:]})
            found = True
            continue
        try:
            probs, st = lmq.compare(case, o1, o2, want=("oracle", "struct"))
            probs = [p for p in probs if not p.get("known_key")]
            p2, pairs = c02_oracle(case, o1, o2)
        except Exception:
            import traceback
            ctx.violation("lm-query (C02): output of the harness/driver could not be parsed/compared for this case",
                          {"stream": "lm-query", "arpa": case.arpa.decode("utf-8", "replace"), "queries": case.queries,
                           "traceback": traceback.format_exc()[-1500:]})
            found = True
            continue
        ctx.hist("lm.equal_state_pairs", min(pairs, 50) // 10 * 10)
        ctx.count(("lm-query", case.arpa, tuple(map(str, case.queries))), nontrivial=st["nontrivial"] > 0 and not st.get("skipped"),
                  n=max(1, st["words"]))
        if ci < 2:
            ctx.sample({"stream": "lm-query", "meta": case.meta, "equal_state_pairs": pairs, "query": case.queries[0]})
        probs = p2 + probs
        if probs:
            p = probs[0]
            ctx.violation("lm-query (C02): %s (%s)" % (p["kind"], p.get("cls", "model")),
                          {"stream": "lm-query", "first_problem": p, "n_problems": len(probs),
                           "arpa": case.arpa.decode("utf-8", "replace"), "queries": case.queries,
                           "options": {"mult": case.mult, "abits": case.abits}, "meta": case.meta})
            found = True
    return found


# ------------------------------------------------------------------ state-algebra
def _words(rng):
    k = rng.random()
    if k < 0.3:
        return rng.choice([0, 1, 2, 255, 256, 257, 65535, 65536, 0x01000000, 0x00010000, 0xFFFFFFFF, 0x80000000, 0x00FF00FF])
    if k < 0.6:
        return rng.randrange(0, 8)
    return rng.getrandbits(32)


def gen_state_pair(rng):
    la = rng.randrange(0, 6)
    a = [_words(rng) for _ in range(5)]
    k = rng.random()
    if k < 0.35:      # equal prefix, differing tail garbage
        lb = la
        b = a[:la] + [_words(rng) for _ in range(5 - la)]
    elif k < 0.55:    # one word differs: byte patterns that invert little-endian order
        lb = la
        b = list(a)
        if la:
            i = rng.randrange(0, la)
            x, y = rng.choice([(0x00000100, 0x00000001), (0x00010000, 0x000000FF), (0x01000000, 0x00FFFFFF), (2, 0x100), (0x0201, 0x0102)])
            a[i], b[i] = (x, y) if rng.random() < 0.5 else (y, x)
    elif k < 0.7:
        lb = rng.randrange(0, 6)
        b = list(a)
    else:
        lb = rng.randrange(0, 6)
        b = [_words(rng) for _ in range(5)]
    return (la, a), (lb, b)


def _ptr(rng):
    return rng.choice([0, 1, 2, 3, (1 << 32) - 1, 1 << 32, (1 << 64) - 1, (1 << 63), rng.getrandbits(64), rng.randrange(0, 5)])


def gen_left_pair(rng):
    la = rng.randrange(0, 6)
    a = [_ptr(rng) for _ in range(5)]
    fa = rng.randrange(0, 2)
    k = rng.random()
    if k < 0.4:
        lb, b, fb = la, list(a), rng.randrange(0, 2)
        for i in range(5):
            if i != la - 1 and rng.random() < 0.5:
                b[i] = _ptr(rng)        # only pointers[length-1] matters
    elif k < 0.6:
        lb, b, fb = la, [_ptr(rng) for _ in range(5)], fa
    else:
        lb, b, fb = rng.randrange(0, 6), [_ptr(rng) for _ in range(5)], rng.randrange(0, 2)
    return (la, a, fa), (lb, b, fb)


def algebra_stream(ctx, hexe, dexe, n):
    ops, metas = [], []
    for _ in range(n):
        kind = ctx.rng.choice("SSLLC")
        if kind == "S":
            (la, a), (lb, b) = gen_state_pair(ctx.rng)
            ops.append("S %d %s %d %s" % (la, " ".join(map(str, a)), lb, " ".join(map(str, b))))
            metas.append(("S", None))
        elif kind == "L":
            (la, a, fa), (lb, b, fb) = gen_left_pair(ctx.rng)
            ops.append("L %d %s %d %d %s %d" % (la, " ".join(map(str, a)), fa, lb, " ".join(map(str, b)), fb))
            metas.append(("L", la == 0 and lb == 0 and fa != fb))
        else:
            (la, a, fa), (lb, b, fb) = gen_left_pair(ctx.rng)
            (ra, wa), (rb, wb) = gen_state_pair(ctx.rng)
            ops.append("C %d %s %d %d %s %d %s %d %d %s" % (la, " ".join(map(str, a)), fa, ra, " ".join(map(str, wa)),
                                                            lb, " ".join(map(str, b)), fb, rb, " ".join(map(str, wb))))
            metas.append(("C", la == 0 and lb == 0 and fa != fb))
    (rc1, o1, e1), (rc2, o2, e2) = stream.both(hexe, dexe, ops)
    found = False
    if rc1 != 0 or rc2 != 0 or len(o1) != len(ops) or len(o2) != len(ops):
        ctx.violation("state-algebra harness/driver failed (rc %s/%s)" % (rc1, rc2), {"stream": "state-algebra", "stderr": (e1 + e2)[-1500:]})
        return True
    for op, (kind, empty_full), li, lm_ in zip(ops, metas, o1, o2):
        t = li.split()
        eq, lt, gt, sg, heq = map(int, t)
        ctx.count(("alg", op), nontrivial=True)
        ctx.hist("alg.kind", kind)
        ctx.hist("alg.outcome", "eq" if eq else ("lt" if lt else "gt"))
        # correspondence with the model
        if " ".join(t[:4]) != lm_.strip():
            ctx.violation("state-algebra: model and implementation disagree on %s" % kind,
                          {"stream": "state-algebra", "op": op, "impl": li, "model": lm_})
            found = True
            continue
        # property oracle (independent of the model)
        bad = None
        if eq + lt + gt != 1:
            bad = "not exactly one of <, ==, >"
        elif sg != (0 if eq else (-1 if lt else 1)):
            bad = "Compare disagrees in sign with < / =="
        elif eq and not heq:
            bad = "equal objects hash differently"
        if bad:
            key = None    # the Left hash deviation is repaired by repo_patches/61-fix-left-hash.patch
            if ctx.violation("state-algebra: %s (%s)" % (bad, kind), {"stream": "state-algebra", "op": op, "impl": li}, key=key):
                found = True
    return found


def run(ctx):
    problems, hexe, dexe = c01.setup(ctx, "C02", REQUIRED)
    ok2, dl = lean.lake_build(["drv_C02"])
    if not ok2:
        problems.append("drv_C02 does not build: " + dl[-800:])
    ok, hexe2, lg = repo.harness("c02_state.cc", extra=[REPO + "/util/murmur_hash.cc"])
    if not ok:
        problems.append(lg)
    if hexe is None or not ok or not ok2:
        flow.report_obligation_failures(ctx, problems, False)
        return
    quick = ctx.tier == "quick"
    found = lm_stream(ctx, hexe, dexe, 40 if quick else 800, "medium")
    found = algebra_stream(ctx, hexe2, lean.driver_path("drv_C02"), 4000 if quick else 200000) or found
    ctx.cov["rule"] = ("lm-query: one evaluation = one scored word (FullScore vs FullScoreForgotState vs GetState, bounds, and every "
                       "pair of equal out-states of a case for recombination), small vocabularies so that equal states are "
                       "frequent; state-algebra: one evaluation = one pair of State/Left/ChartState contents; distinct by content")
    ctx.assumptions += ["MurmurHashNative is a function of (bytes, seed)", "float32 tolerance as in C01"]
    flow.report_obligation_failures(ctx, problems, found)
