"""C08 — Chart-state scoring equals left-to-right scoring for every derivation."""
import os
import re
from fractions import Fraction

from vlib import flow, lean, repo, stream
from vlib.common import fresh_scratch, log

from . import lmgen
from . import C01_lmq as lmq

MANIFEST = {
    "text": "Lean model of lm/left.hh (RuleScore: Terminal, NonTerminal, BeginSentence, Finish, ExtendLeft, ProcessRet), "
            "GenericModel::ExtendLeft / InternalUnRest and lm/partial.hh (ExtendLoop, RevealBefore, RevealAfter, Subsume) "
            "over the abstract table (real n-grams + hallucinated blanks with extends-left/right marks) with rest costs "
            "as an arbitrary function (NoRest / MaxRest / LowerRest instances). Theorems: ExtendLeft returns, in "
            "difference form, exactly what scoring with the longer context returns (probability, matched length, "
            "back-offs, next_use); the fragment invariant Frag is established by Terminal and preserved by NonTerminal; "
            "every derivation tree (arbitrary n-ary mix of terminals and non-terminals) scores to the left-to-right "
            "sum once <s> is applied, and from the null context for models without rest costs; with the extends-right "
            "marks the unrepaired trie builder drops, the statement is refuted by a concrete witness. "
            "Tied to the code by the `left` stream: the same ARPA bytes go through the seven in-process model "
            "configurations (six classes + REST_MAX / REST_LOWER rest-probing, ASan/UBSan build) and the compiled Lean "
            "driver; all binary bracketings up to length 7, random n-ary derivations up to length 14, with and without "
            "BeginSentence/BeginNonTerminal, ExtendLeft directly, RevealBefore/RevealAfter/Subsume at every split; "
            "Finish() totals are compared with the exact left-to-right sum of the L0 ARPA recursion, chart states "
            "(lengths, full, pointer ==-classes, right state) with the model's.",
    "note": "Trusted: Lean kernel + propext/Classical.choice/Quot.sound; statements in lean/Properties/C08.lean; harness "
            "c08_left.cc, driver drv_C08, generator, comparator, tolerance formula; 64-bit hash injectivity on the "
            "model's n-grams; float32 modelled as exact rationals.",
    "technique": "Lean 4 proof (induction/invariants over an executable model) + differential correspondence with the real code",
}

REQUIRED = ["KV.C08.constants_ok", "KV.C08.hyp_of_build", "KV.C08.extendLeft_eq", "KV.C08.extendLeft_prob",
            "KV.C08.terminal_frag", "KV.C08.nonterminal_frag", "KV.C08.derivation_frag", "KV.C08.any_derivation_table",
            "KV.C08.any_derivation", "KV.C08.any_derivation_probing", "KV.C08.beginNonTerminal_frag",
            "KV.C08.beginNonTerminal_rule", "KV.C08.any_derivation_leftToRight", "KV.C08.no_rest_fragment_table",
            "KV.C08.no_rest_fragment", "KV.C08.subsume_frag", "KV.C08.derivation_score_unique",
            "KV.C08.subsume_whole_minus_parts", "KV.C08.reveal_after", "KV.C08.reveal_after_whole_minus_parts", "KV.C08.reveal_before", "KV.C08.reveal_before_whole_minus_parts", "KV.C08.reveal_both", "KV.C08.reveal_both_whole_minus_parts",
            "KV.C08.any_derivation_fails_with_dropped_marks", "KV.C08.open_states_square", "KV.C08.nonterminal_dead_branches",
            "KV.C08.reset_equiv_fresh", "KV.C08.reset_keeping_done_not_fresh", "KV.C08.reset_keeping_done_breaks_total"]

KEY_G = "trie-drops-extension-marks-of-trailing-blanks"

TWO23 = Fraction(1, 2 ** 23)
TINY = Fraction(1, 2 ** 149)
NOREST = "PTAQB"
SEG_OF = {"P": "P", "T": "N", "A": "N", "Q": "N", "B": "N", "R": "M", "L": "L"}
NAMES = dict(lmq.NAMES, R="RestProbingModel(REST_MAX)", L="RestProbingModel(REST_LOWER)")


# ------------------------------------------------------------------ generator helpers
def sections(arpa_bytes):
    """-> list of (n, [(line_index, tokens)]) for the n-gram sections; lines = arpa split on \\n (CR kept)"""
    lines = arpa_bytes.split(b"\n")
    out = {}
    n = None
    for i, ln in enumerate(lines):
        s = ln.strip()
        m = re.match(rb"^\\(\d+)-grams:$", s)
        if m:
            n = int(m.group(1))
            out[n] = []
            continue
        if s == b"\\end\\":
            n = None
        if n is None or not s or s.startswith(b"\\"):
            continue
        out[n].append((i, s.split()))
    return lines, out


def enforce_premise(arpa_bytes):
    """Drop the back-off field of every n-gram that is not the context of a longer n-gram (the property's premise:
    true of every estimator's output)."""
    lines, secs = sections(arpa_bytes)
    N = max(secs)
    ctxs = set()
    for n in secs:
        for _, t in secs[n]:
            if n >= 2 and len(t) >= n + 1:
                ctxs.add(tuple(t[1:n]))
    changed = 0
    for n in secs:
        for i, t in secs[n]:
            if len(t) == n + 2 and tuple(t[1:n + 1]) not in ctxs:
                ln = lines[i]
                cr = ln.endswith(b"\r")
                body = ln[:-1] if cr else ln
                k = body.rstrip().rfind(b"\t")
                if k < 0:
                    continue
                lines[i] = body[:k] + (b"\r" if cr else b"")
                changed += 1
    return b"\n".join(lines), changed


def lower_files(case_arpa, workdir, name, rng, drop_unk=False):
    """Lower-order ARPA files of 'the same corpus': order k keeps the n-grams of orders <= k (same unigram order, so
    that word ids agree — LowerRestBuild passes the main model's ids), probabilities shifted so that rest != prob.
    Returns list of paths (order 1 … N-1) or None when <unk> is absent (LowerRestBuild sizes its unigram table by the
    file's count and would write out of bounds for a hallucinated <unk>)."""
    lines, secs = sections(case_arpa)
    N = max(secs)
    # drop_unk: the lower-order files do not list <unk> (LowerRestBuild then has to size its unigram table by the main
    # vocabulary, not by the file's count: heap overflow on trees without repo_patches/63-fix-lower-rest-unk)
    paths = []
    for k in range(1, N):
        shift = Fraction(rng.randrange(0, 9), 8)
        out = [b"\\data\\"]
        def keep(n, t):
            return not (drop_unk and n == 1 and t[1] in (b"<unk>", b"<UNK>"))
        for n in range(1, k + 1):
            out.append(b"ngram %d=%d" % (n, sum(1 for _, t in secs[n] if keep(n, t))))
        out.append(b"")
        for n in range(1, k + 1):
            out.append(b"\\%d-grams:" % n)
            for _, t in secs[n]:
                if not keep(n, t):
                    continue
                try:
                    p = float(t[0])
                except ValueError:
                    p = -1.0
                p2 = min(0.0, p) - float(shift) * (1 if rng.random() < 0.7 else 0)
                ln = (b"%.4f" % p2) + b"\t" + b" ".join(t[1:n + 1])
                if n < k and len(t) == n + 2:
                    ln += b"\t" + t[n + 1]
                out.append(ln)
            out.append(b"")
        out.append(b"\\end\\")
        p = os.path.join(workdir, "%s.lower%d.arpa" % (name, k))
        with open(p, "wb") as f:
            f.write(b"\n".join(out) + b"\n")
        paths.append(p)
    return paths


def trailing_blank_case(rng):
    """Class aimed at pre-observation G: a chain a b c d of real n-grams whose suffixes `b c d` and `b c` are pruned, so
    that the blank `b c` (context of the blank `b c d`) must keep its extends-right mark; few other bigrams, so that the
    blank often sorts after the last real bigram in the trie's (hash-ordered) vocabulary."""
    c = lmgen.Case()
    V = rng.randrange(4, 9)
    words = ["%s%d" % (rng.choice(["w", "x", "q", "z", "k"]), rng.randrange(100)) for _ in range(V)]
    words = list(dict.fromkeys(words))
    while len(words) < 4:
        words.append("v%d" % len(words))
    N = rng.choice([4, 4, 5])
    chain = rng.sample(words, N) if len(words) >= N else words[:N]
    N = len(chain)
    grams = {n: {} for n in range(1, N + 1)}
    uni = ["<unk>", "<s>", "</s>"] + words
    rng.shuffle(uni)
    for w in uni:
        grams[1][(w,)] = None
    for n in range(2, N + 1):
        grams[n][tuple(chain[:n])] = None
    # a second, shorter chain and a few sentence-initial n-grams
    for _ in range(rng.randrange(0, 3)):
        ch = [rng.choice(["<s>"] + words)] + [rng.choice(words + ["</s>"]) for _ in range(rng.randrange(1, N))]
        for n in range(2, len(ch) + 1):
            if "</s>" in ch[:n - 1]:
                break
            grams[n][tuple(ch[:n])] = None
    ctxs = set(g[:-1] for n in grams for g in grams[n] if n >= 2)
    lines = ["\\data\\"] + ["ngram %d=%d" % (n, len(grams[n])) for n in range(1, N + 1)] + [""]
    for n in range(1, N + 1):
        lines.append("\\%d-grams:" % n)
        for g in grams[n]:
            p = "-99" if g == ("<s>",) else "-%.4f" % rng.uniform(0.05, 4.0)
            ln = p + "\t" + " ".join(g)
            if n < N and g in ctxs:
                ln += "\t-%.4f" % rng.uniform(0.05, 1.5)
            lines.append(ln)
        lines.append("")
    lines.append("\\end\\")
    c.arpa = ("\n".join(lines) + "\n").encode()
    c.mult, c.abits, c.order, c.words = rng.choice([1.5, 2.0, 4.0]), rng.choice([0, 5, 22]), N, words
    qs = []
    for _ in range(10):
        i = rng.randrange(0, N - 1)
        body = chain[i:] if rng.random() < 0.6 else chain[i:rng.randrange(i + 1, N + 1)]
        pre = [rng.choice(words) for _ in range(rng.randrange(0, 3))]
        post = [rng.choice(words + ["</s>"]) for _ in range(rng.randrange(0, 3))]
        qs.append((rng.choice("BN"), pre + body + post))
    c.queries = qs
    c.meta = {"order": N, "vocab": len(uni), "kind": "trailing-blank", "unk": "<unk>", "crlf": False, "bos": True, "eos": True,
              "bitbound": False, "style_c": False, "closed": False, "ngrams": sum(len(grams[n]) for n in grams)}
    return c


def dense_array_case(rng):
    """Class aimed at the array-compressed tries (seeded/C08-4): a suffix-closed 3-gram model with every bigram and a few
    hundred trigrams, so that ArrayBhiksha's offset table of the bigram layer has several blocks even for few chopped
    bits.  Built from lists only: the same seed gives the same model whatever PYTHONHASHSEED is."""
    c = lmgen.Case()
    words = ["d%d" % i for i in range(rng.randrange(10, 14))]
    uni = ["<unk>", "<s>", "</s>"] + words
    rng.shuffle(uni)
    bi = [(a, b) for a in ["<s>"] + words for b in words + ["</s>"]]
    rng.shuffle(bi)
    tri_all = [(a, b, x) for (a, b) in bi if b != "</s>" for x in words + ["</s>"]]
    tri = rng.sample(tri_all, min(len(tri_all), rng.randrange(350, 600)))
    grams = {1: [(w,) for w in uni], 2: bi, 3: tri}
    ctxs = set(g[:-1] for n in (2, 3) for g in grams[n])
    lines = ["\\data\\"] + ["ngram %d=%d" % (n, len(grams[n])) for n in (1, 2, 3)] + [""]
    for n in (1, 2, 3):
        lines.append("\\%d-grams:" % n)
        for g in grams[n]:
            ln = ("-99" if g == ("<s>",) else "-%.4f" % rng.uniform(0.05, 4.0)) + "\t" + " ".join(g)
            if n < 3 and g in ctxs:
                ln += "\t-%.4f" % rng.uniform(0.05, 1.5)
            lines.append(ln)
        lines.append("")
    lines.append("\\end\\")
    c.arpa = ("\n".join(lines) + "\n").encode()
    c.mult, c.abits, c.order, c.words = 1.5, rng.choice([3, 5, 7]), 3, words
    c.queries = [(rng.choice("BN"), [rng.choice(words) for _ in range(rng.randrange(4, 9))]) for _ in range(8)]
    c.meta = {"order": 3, "vocab": len(uni), "kind": "dense-array", "unk": "<unk>", "crlf": False, "bos": True, "eos": True,
              "bitbound": False, "style_c": False, "closed": True, "ngrams": sum(len(grams[n]) for n in grams)}
    return c


def all_binary(lo, hi):
    """all binary trees over the span [lo, hi): leaf = int, node = (l, r)"""
    if hi - lo == 1:
        return [lo]
    out = []
    for m in range(lo + 1, hi):
        for l in all_binary(lo, m):
            for r in all_binary(m, hi):
                out.append((l, r))
    return out


def render_binary(t, ws, rng, top=True):
    if isinstance(t, int):
        return ws[t] if (top or rng.random() < 0.6) else "( %s )" % ws[t]
    l, r = t
    body = render_binary(l, ws, rng, False) + " " + render_binary(r, ws, rng, False)
    return body if top else "( " + body + " )"


def random_nary(ws, lo, hi, rng, top=True):
    """random n-ary derivation over ws[lo:hi] mixing terminals and non-terminals (as the design-time probe c8.cc)"""
    if hi - lo == 1 and not top:
        return ws[lo]
    items = []
    pos = lo
    while pos < hi:
        ln = 1 + rng.randrange(hi - pos)
        if ln == hi - lo and hi - lo > 1:
            ln = 1 + rng.randrange(hi - lo - 1)
        if ln == 1 and rng.random() < 0.6:
            items.append(ws[pos])
        else:
            items.append("( " + random_nary(ws, pos, pos + ln, rng, False) + " )")
        pos += ln
    if rng.random() < 0.08:
        items.insert(rng.randrange(len(items) + 1), "( )")        # an empty non-terminal
    return " ".join(items)


def gen_ops(case, rng, quick):
    ops = []
    sents = [(s, [w for w in ws if w != "<s>"]) for s, ws in case.queries]
    sents = [(s, ws) for s, ws in sents if ws]
    rng.shuffle(sents)
    nbin = 0
    budget = 260 if quick else 1500
    for s, ws in sents:
        short = ws[:rng.randrange(2, 8)]
        if len(short) >= 2 and nbin < (2 if quick else 4) and len(ops) < budget:
            nbin += 1
            trees = all_binary(0, len(short))
            start = rng.choice("BBN")
            for t in trees:
                ops.append("%s %s %s" % (rng.choice("dddD"), start, render_binary(t, short, rng)))
            # the whole fragment as one non-terminal under <s>
            ops.append("d B ( %s )" % render_binary(rng.choice(trees), short, rng))
        for _ in range(2 if quick else 4):
            ops.append("%s %s %s" % (rng.choice("ddD"), rng.choice("BN"), random_nary(ws, 0, len(ws), rng)))
    for s, ws in sents[: (6 if quick else 14)]:
        n = len(ws)
        # ExtendLeft directly: fragment = a short window, context = the words before it
        for _ in range(3):
            a = rng.randrange(0, n)
            b = min(n, a + rng.randrange(1, 6))
            ctx = ws[max(0, a - rng.randrange(0, 7)):a]
            if s == "B" and a <= 5 and rng.random() < 0.5:
                ctx = ["<s>"] + ws[:a]
            ops.append("x %s | %s" % (" ".join(ws[a:b]), " ".join(ctx)))
        # partial.hh at every split point (quick: a sample)
        w = ws[:10]
        n = len(w)
        splits = [(a, b) for a in range(0, n + 1) for b in range(a, n + 1)]
        if quick:
            splits = rng.sample(splits, min(len(splits), 8))
        elif len(splits) > 30:
            splits = rng.sample(splits, 30)
        splits = splits + [(0, rng.randrange(0, n + 1)), (rng.randrange(0, n + 1), n)]     # one-sided protocols
        for a, b in splits:
            k = rng.random()
            if k < 0.4:
                steps = "BA" * 6            # the interleaving of lm/partial_test.cc
            elif k < 0.6:
                steps = "B" * 6 + "A" * 6
            elif k < 0.8:
                steps = "A" * 6 + "B" * 6
            else:
                steps = "".join(rng.choice("AB") for _ in range(14)) + "BA" * 6     # everything revealed before the finals
            ops.append("p %d %d .%s %s" % (a, b, steps, " ".join(w)))
        for a in range(0, n + 1):
            if not quick or rng.random() < 0.5:
                ops.append("s %d %s" % (a, " ".join(w)))
    return ops


# ------------------------------------------------------------------ parsing
def frac(s):
    return lmgen.frac(s)


def fb(h):
    return Fraction(lmgen.float_from_bits(h))


def parse_info(line):
    t = line.split()
    if len(t) >= 3 and t[1] == "error":
        return {"error": t[2]}
    d = {}
    for kv in t[2:]:
        k, v = kv.split("=", 1)
        d[k] = v
    for k in ("real", "blank", "nzbo"):
        d[k] = [int(x) for x in d[k].split(",")] if d.get(k, "-") != "-" else []
    for k in ("order", "entries", "blanks", "closed", "ctx", "proper", "distinct", "unk", "ctxbo", "bos"):
        d[k] = int(d[k])
    return d


def segs(line):
    out = {}
    for seg in line.split(" ## "):
        seg = seg.strip()
        if len(seg) >= 2 and seg[1] == ":":
            out[seg[0]] = seg[2:].strip()
    return out


def chart(tok):
    """7 tokens: leftlen full ptrs rlen rwords rbackoffs -> dict"""
    return {"llen": int(tok[0]), "full": int(tok[1]), "ptrs": [] if tok[2] == "-" else tok[2].split(","),
            "rlen": int(tok[3]), "rwords": [] if tok[4] == "-" else tok[4].split(","),
            "rbo": [] if tok[5] == "-" else tok[5].split(",")}


class PtrClasses:
    """pointers are compared only through ==-classes: (position, value) -> index of first appearance"""

    def __init__(self):
        self.m = {}

    def ids(self, ptrs):
        out = []
        for i, p in enumerate(ptrs):
            out.append(self.m.setdefault((i, p), len(self.m)))
        return out


def chart_diff(ci, cm, pi, pm, numeric=True):
    if ci["llen"] != cm["llen"]:
        return "left.length %d vs %d" % (ci["llen"], cm["llen"])
    if ci["full"] != cm["full"]:
        return "left.full %d vs %d" % (ci["full"], cm["full"])
    if pi.ids(ci["ptrs"]) != pm.ids(cm["ptrs"]):
        return "left.pointers classes differ"
    if ci["rlen"] != cm["rlen"]:
        return "right.length %d vs %d" % (ci["rlen"], cm["rlen"])
    if ci["rwords"] != cm["rwords"]:
        return "right.words %s vs %s" % (ci["rwords"], cm["rwords"])
    if numeric and not all(lmq.close_bo(x, y) for x, y in zip(ci["rbo"], cm["rbo"])):
        return "right.backoff differ"
    return None


def tolerance(k, a, rest=False):
    return (8 if not rest else 16) * (k + 1) * TWO23 * a + (k + 1) * TINY


# ------------------------------------------------------------------ comparison of one op
SHAPES = []


def compare_op(op, il, ml, loaded, info, qfit, subnormal):
    """-> list of problems {kind, cls, detail}"""
    probs = []
    kind = op.split()[0]
    I = segs(il)
    M = segs(ml)
    premise = bool(info["ctxbo"])
    orc = None
    if "O" in M:
        t = M["O"].split()
        orc = (frac(t[0]), int(t[1]), frac(t[2]))
    for c in loaded:
        quant = c in "QB"
        numeric = (not quant) or (qfit and not subnormal)
        if quant and subnormal:
            continue          # C03 finding quant-backoff-centre-negative-zero: structure may differ; not C08's business
        si, sm = I.get(c), M.get(SEG_OF[c])
        if si is None or sm is None:
            probs.append({"kind": "output-missing", "cls": c})
            continue
        rest = c in "RL"
        if si.startswith("RESETDIFF"):
            # API history: one RuleScore reused through Reset()/Reset(ChartState&) must equal fresh objects bit for bit
            fr, ru = si[len("RESETDIFF fresh: "):].split(" %% reused: ", 1)
            a, b = fr.split(" | "), ru.split(" | ")
            j = next((i for i in range(min(len(a), len(b))) if a[i] != b[i]), min(len(a), len(b)))
            probs.append({"kind": "reset-history", "cls": c, "node": j, "fresh": a[j] if j < len(a) else None,
                          "reused": b[j] if j < len(b) else None})
            continue
        if "MODEL-TRACE-MISMATCH" in sm:
            probs.append({"kind": "driver-internal", "cls": c})
            continue
        try:
            if kind in "dD":
                ri = [r.split() for r in si.split(" | ")]
                rm = [r.split() for r in sm.split(" | ")]
                if len(ri) != len(rm):
                    probs.append({"kind": "record-count", "cls": c, "impl": len(ri), "model": len(rm)})
                    continue
                pi, pm = PtrClasses(), PtrClasses()
                k, a = orc[1], orc[2]
                tl = tolerance(k, a, rest)
                if rest:      # rest costs are not among the oracle's terms: add the magnitude of the fragment scores
                    tl = tl + tolerance(k, sum(abs(frac(y[0])) for y in rm), rest)
                for j, (x, y) in enumerate(zip(ri, rm)):
                    cx = chart(x[1:7])
                    if not cx["full"]:
                        # evidence only: open states made by RuleScore are "square"; this is what makes
                        # lm/left.hh:106 and :136 (in.right.length < in.left.length) unreachable through the API
                        SHAPES.append("square" if cx["rlen"] == cx["llen"] else "right%+d" % (cx["rlen"] - cx["llen"]))
                    d = chart_diff(cx, chart(y[1:7]), pi, pm, numeric)
                    if d:
                        probs.append({"kind": "chart-state", "cls": c, "node": j, "detail": d, "impl": " ".join(x), "model": " ".join(y)})
                        break
                    if numeric and abs(fb(x[0]) - frac(y[0])) > tl + tolerance(k, abs(frac(y[0])), rest):
                        probs.append({"kind": "node-score", "cls": c, "node": j, "impl": float(fb(x[0])), "model": float(frac(y[0])), "tol": float(tl)})
                        break
                # the property oracle: root total vs the left-to-right sum of the L0 recursion
                start = op.split()[1]
                if numeric and premise and (start == "B" or not rest):
                    tot = fb(ri[-1][0])
                    if abs(tot - orc[0]) > tl:
                        probs.append({"kind": "oracle-total", "cls": c, "impl": float(tot), "left_to_right": float(orc[0]),
                                      "exact": str(orc[0]), "tol": float(tl), "start": start})
            elif kind == "x":
                hi, bi = si.split(" ; ", 1) if " ; " in si else (si.replace(" ;", ""), "")
                hm, bm = sm.split(" ; ", 1) if " ; " in sm else (sm.replace(" ;", ""), "")
                if hi.split() != hm.split():
                    probs.append({"kind": "extend-setup", "cls": c, "impl": hi, "model": hm})
                    continue
                ri = [r.split() for r in bi.split(" | ")] if bi.strip() else []
                rm = [r.split() for r in bm.split(" | ")] if bm.strip() else []
                if len(ri) != len(rm):
                    probs.append({"kind": "record-count", "cls": c, "impl": len(ri), "model": len(rm)})
                    continue
                for j, (x, y) in enumerate(zip(ri, rm)):
                    k, a = int(y[13]), frac(y[14])
                    a2 = a + abs(frac(y[6])) + abs(frac(y[7])) + abs(frac(y[15]))
                    tl = tolerance(k + 2, a2, rest)
                    # model vs implementation: prob rest len indep next_use backoffs
                    bad = None
                    if x[2:5] != y[2:5]:
                        bad = "ngram_length/independent_left/next_use %s vs %s" % (x[2:5], y[2:5])
                    elif numeric and (abs(fb(x[0]) - frac(y[0])) > tl or abs(fb(x[1]) - frac(y[1])) > tl):
                        bad = "prob/rest"
                    elif numeric and x[5] != "-" and not all(lmq.close_bo(p, q) for p, q in zip(x[5].split(","), y[5].split(","))):
                        bad = "backoff_out"
                    if bad:
                        probs.append({"kind": "extend-left", "cls": c, "pos": j, "detail": bad, "impl": " ".join(x), "model": " ".join(y)})
                        break
                    # the API's own claim: same probability, matched length and back-offs as scoring with the context
                    newp = fb(x[0]) + fb(x[7])
                    if numeric and abs(newp - fb(x[8])) > tl:
                        probs.append({"kind": "extend-vs-full-context-prob", "cls": c, "pos": j, "extended": float(newp), "direct": float(fb(x[8]))})
                        break
                    if x[2] != x[9]:
                        probs.append({"kind": "extend-vs-full-context-length", "cls": c, "pos": j, "extended": x[2], "direct": x[9]})
                        break
                    if int(x[4]) > 0 and (int(x[10]) != j + 1 + int(x[4]) or x[5] != x[11]):
                        probs.append({"kind": "extend-vs-full-context-backoffs", "cls": c, "pos": j, "impl": " ".join(x)})
                        break
                    if numeric and premise and abs(fb(x[8]) - frac(y[12])) > tl:
                        probs.append({"kind": "oracle-extend", "cls": c, "pos": j, "impl": float(fb(x[8])), "spec": float(frac(y[12]))})
                        break
            elif kind in "ps":
                pi_ = si.split(" ; ")
                pm_ = sm.split(" ; ")
                hi, hm = pi_[0].split(), pm_[0].split()
                k, a = orc[1], orc[2]
                tl = tolerance(k, a, rest)
                nums_i = [fb(v) for v in hi]
                nums_m = [frac(v) for v in hm]
                # rest costs are not among the oracle's terms: add the magnitude of the values themselves
                tl = tl + tolerance(k, sum(abs(q) for q in nums_m), rest)
                if numeric and any(abs(p - q) > tl for p, q in zip(nums_i, nums_m)):
                    probs.append({"kind": "partial-values", "cls": c, "impl": [float(v) for v in nums_i], "model": [float(v) for v in nums_m], "tol": float(tl)})
                    continue
                d = chart_diff(chart(pi_[1].split()), chart(pm_[1].split()), PtrClasses(), PtrClasses(), numeric)
                if d:
                    probs.append({"kind": "partial-state", "cls": c, "detail": d, "impl": pi_[1], "model": pm_[1]})
                    continue
                if kind == "p":
                    ri = pi_[2].split(" | ") if len(pi_) > 2 and pi_[2].strip() else []
                    rm = pm_[2].split(" | ") if len(pm_) > 2 and pm_[2].strip() else []
                    if [r.split()[0] for r in ri] != [r.split()[0] for r in rm]:
                        probs.append({"kind": "partial-steps", "cls": c, "impl": ri, "model": rm})
                        continue
                    if numeric and any(abs(fb(p.split()[1]) - frac(q.split()[1])) > tl for p, q in zip(ri, rm)):
                        probs.append({"kind": "partial-adjust", "cls": c, "impl": ri, "model": rm})
                        continue
                    full, parts, acc = nums_i[0], nums_i[1] + nums_i[2] + nums_i[3], nums_i[4]
                else:
                    full, parts, acc = nums_i[0], nums_i[1] + nums_i[2], nums_i[3]
                # the property: the accumulated adjustment is exactly whole - parts
                if numeric and premise and abs(acc - (full - parts)) > tl:
                    probs.append({"kind": "whole-minus-parts", "cls": c, "accumulated": float(acc), "whole_minus_parts": float(full - parts), "tol": float(tl)})
                    continue
                if numeric and premise and not rest and abs(acc - orc[0]) > tl:
                    probs.append({"kind": "oracle-adjust", "cls": c, "accumulated": float(acc), "spec": float(orc[0]), "tol": float(tl)})
        except (IndexError, ValueError) as ex:
            probs.append({"kind": "unparsable", "cls": c, "error": repr(ex), "impl": si[:300], "model": sm[:300]})
    return probs


def shrink_arpa(arpa, still_fails, max_tests=150):
    """Greedy line removal (highest orders first) with the count header kept consistent; `still_fails(bytes)` decides."""
    lines, secs = sections(arpa)
    N = max(secs)
    removed = set()
    tests = 0

    def render(rem):
        out = []
        counts = {n: sum(1 for i, _ in secs[n] if i not in rem) for n in secs}
        for i, ln in enumerate(lines):
            if i in rem:
                continue
            m = re.match(rb"^ngram (\d+)=\d+(\r?)$", ln.strip(b"\n"))
            if m and int(m.group(1)) in counts:
                ln = b"ngram %d=%d" % (int(m.group(1)), counts[int(m.group(1))]) + m.group(2)
            out.append(ln)
        return b"\n".join(out)

    for n in range(N, 0, -1):
        for i, t in secs[n]:
            if tests >= max_tests:
                return render(removed)
            if n == 1 and t[1] in (b"<s>", b"</s>", b"<unk>", b"<UNK>"):
                continue
            if n == N and sum(1 for j, _ in secs[N] if j not in removed) <= 1:
                continue
            tests += 1
            if still_fails(render(removed | {i})):
                removed.add(i)
    return render(removed)


QUIRK = {"on": 0}


def detect_quirk(hexe, workdir):
    """Does this tree's probing model report a +0.0 unigram that no bigram ends in as extending left (the sign-bit quirk
    of Read1Gram, known finding of C01, repaired in later trees)?  Decides which table the model uses for probing."""
    p = os.path.join(workdir, "quirk.arpa")
    with open(p, "wb") as f:
        f.write(b"\\data\\\nngram 1=4\nngram 2=1\n\n\\1-grams:\n-1\t<unk>\n-99\t<s>\t-0.5\n0\ta\n-1\tb\n\n\\2-grams:\n-0.5\t<s> b\n\n\\end\\\n")
    rc, o, e = stream.run_lines(hexe, ["arpa %s classes=P" % p, "d N ( a )"], 120, env={"ASAN_OPTIONS": "detect_leaks=0"})
    if rc != 0 or len(o) != 2:
        return 0
    first = segs(o[1]).get("P", "").split(" | ")[0].split()
    return 1 if len(first) > 1 and first[1] == "1" else 0


def run_case(hexe, dexe, arpa_path, lower, ops, mult, abits, classes):
    extra = (" lower=" + ",".join(lower)) if lower else ""
    extra += " quirk=%d" % QUIRK["on"]
    head = "arpa %s mult=%s abits=%d classes=%s%s" % (arpa_path, mult, abits, classes, extra)
    lines = [head] + ops
    rc1, o1, e1 = stream.run_lines(hexe, lines, 600, env={"ASAN_OPTIONS": "detect_leaks=0"})
    rc2, o2, e2 = stream.run_lines(dexe, lines, 600, args=["6"])
    return (rc1, o1, e1), (rc2, o2, e2)


def left_stream(ctx, hexe, dexe, n_cases, quick):
    work = fresh_scratch("c08_%s_%d" % (ctx.pid, os.getpid()))
    QUIRK["on"] = detect_quirk(hexe, work)
    ctx.hist("left.probing_sign_quirk", QUIRK["on"])
    found = False
    for ci in range(n_cases):
        kind = ctx.rng.choice(["pruned", "pruned", "corpus", "random", None, "trailing-blank"])
        if ci == 0:
            kind = "dense-array"            # once per run, whatever the seed
            case = dense_array_case(ctx.rng)
        elif kind == "trailing-blank":
            case = trailing_blank_case(ctx.rng)
        else:
            case = lmgen.gen_case(ctx.rng, size="small", max_vocab=14, force={"kind": kind} if kind else None)
        premise_forced = ctx.rng.random() < 0.85
        arpa = case.arpa
        if premise_forced:
            arpa, _ = enforce_premise(arpa)
        path = os.path.join(work, "c%d.arpa" % ci)
        with open(path, "wb") as f:
            f.write(arpa)
        has_unk = bool(re.search(rb"\t<(unk|UNK)>", arpa))
        drop_unk = (not has_unk) or ctx.rng.random() < 0.3
        lower = lower_files(arpa, work, "c%d" % ci, ctx.rng, drop_unk) if ctx.rng.random() < 0.6 else None
        if lower:
            ctx.hist("left.lower_files_list_unk", int(not drop_unk))
        classes = "PRLTAQB" if lower else "PRTAQB"
        ops = gen_ops(case, ctx.rng, quick)
        if not os.path.exists(hexe):
            # the shared scratch cache keeps only a few tree builds: another check may have pruned ours meanwhile
            ok, hexe2, lg = repo.harness("c08_left.cc", libs=True, config="asan")
            if ok:
                hexe = hexe2
        (rc1, o1, e1), (rc2, o2, e2) = run_case(hexe, dexe, path, lower, ops, case.mult, case.abits, classes)
        text = arpa.decode("utf-8", "replace")
        base = {"stream": "left", "arpa": text, "options": {"mult": case.mult, "abits": case.abits, "classes": classes},
                "lower_files": [open(p, "rb").read().decode("utf-8", "replace") for p in (lower or [])], "meta": case.meta,
                "replay": "write arpa (and lower files) to disk; feed `arpa <file> mult=.. abits=.. classes=.. [lower=f1,f2,..]` "
                          "followed by the op line to the harness (harness/c08_left.cc) and to drv_C08"}
        if rc1 != 0 or rc2 != 0 or len(o1) != len(ops) + 1 or len(o2) != len(ops) + 1:
            san = re.search(r"ERROR: (AddressSanitizer|UndefinedBehaviorSanitizer|LeakSanitizer)[^\n]*(?:\n[^\n]*){0,3}", e1 or "")
            what = "left: harness or driver died (harness rc=%s, driver rc=%s)" % (rc1, rc2)
            if san:
                what = "left: sanitizer report while loading/scoring (%s)" % " / ".join(x.strip()[:160] for x in san.group(0).splitlines()[:3])
            ctx.violation(what,
                          dict(base, ops=ops[:50], harness_stderr=e1[-3000:], driver_stderr=e2[-1500:]))
            found = True
            continue
        info = parse_info(o2[0])
        load = lmq.parse_load(o1[0])
        ctx.hist("left.kind", case.meta["kind"])
        ctx.hist("left.order", case.meta["order"])
        if "error" in info:
            ctx.hist("left.skipped", "model-rejects")
            bad = [c for c in classes if load.get(c) == "ok"]
            if bad:
                ctx.violation("left: the model rejects an ARPA the implementation loads", dict(base, classes_ok=bad, model=info))
                found = True
            continue
        if not info["ctx"] or not info["distinct"] or not info["proper"]:
            ctx.hist("left.skipped", "outside-input-class")
            continue
        ctx.hist("left.closed", info["closed"])
        ctx.hist("left.premise", info["ctxbo"])
        ctx.hist("left.blanks", min(info["blanks"], 12))
        ctx.hist("left.lower", info.get("lower"))
        loaded = [c for c in classes if load.get(c) == "ok"]
        for c in classes:
            if load.get(c) != "ok" and not (c in "PRL" and load.get(c) == "probing-size"):
                ctx.violation("left: %s does not load a model the specification accepts (%s)" % (NAMES[c], load.get(c)), dict(base, load=load))
                found = True
        if "L" in loaded and info.get("lower") != "ok":
            loaded.remove("L")
        qfit = lmq.quant_fits(info)
        subnormal = bool(re.search(rb"e-4[0-5]|e-39", arpa))
        bad = []
        for oi, op in enumerate(ops):
            probs = compare_op(op, o1[1 + oi], o2[1 + oi], loaded, info, qfit, subnormal)
            k = op.split()[0]
            ctx.hist("left.op", k)
            for sh in set(SHAPES):
                ctx.hist("left.open_state_shape", sh)
            del SHAPES[:]
            nontriv = True
            if k in "dD":
                nontriv = "(" in op
                ctx.hist("left.deriv_len", len([t for t in op.split()[2:] if t not in "()"]))
            ctx.count(("left", arpa, op), nontrivial=nontriv, n=max(1, len(loaded)))
            if probs:
                bad.append((oi, op, probs))
        if bad:
            # one report per case: prefer an op where the implementation contradicts the L0 oracle / its own whole-minus-parts
            strong = ("reset-history", "oracle-total", "oracle-adjust", "oracle-extend", "whole-minus-parts", "extend-vs-full-context-prob")
            def rank(b):
                ks = [q["kind"] for q in b[2]]
                return (0 if any(k in strong for k in ks) else 1, len(b[1]))
            oi, op, probs = min(bad, key=rank)
            probs = sorted(probs, key=lambda q: 0 if q["kind"] in strong else 1)
            p = probs[0]
            # the op alone on this model (ops are independent), on the one class
            (r1, a1, _), (r2, a2, _) = run_case(hexe, dexe, path, lower, [op], case.mult, case.abits, p["cls"] if p.get("cls") else classes)
            alone = r1 == 0 and r2 == 0 and len(a1) == 2 and len(a2) == 2 and \
                bool(compare_op(op, a1[1], a2[1], [p["cls"]] if p.get("cls") else loaded, info, qfit, subnormal))
            small = None
            if alone and not lower and p.get("cls"):
                # shrink the model: remove n-gram lines while this op still fails on this class (and the premise still holds)
                spath = os.path.join(work, "shrink.arpa")

                def still_fails(data):
                    with open(spath, "wb") as f:
                        f.write(data)
                    (q1, b1, _), (q2, b2, _) = run_case(hexe, dexe, spath, None, [op], case.mult, case.abits, p["cls"])
                    if q1 != 0 or q2 != 0 or len(b1) != 2 or len(b2) != 2:
                        return False
                    inf = parse_info(b2[0])
                    if "error" in inf or not inf["ctx"] or not inf["distinct"] or not inf["proper"] or inf["ctxbo"] != info["ctxbo"]:
                        return False
                    if lmq.parse_load(b1[0]).get(p["cls"]) != "ok":
                        return False
                    return any(q["kind"] == p["kind"] for q in compare_op(op, b1[1], b2[1], [p["cls"]], inf, qfit, subnormal))
                try:
                    small = shrink_arpa(arpa, still_fails).decode("utf-8", "replace")
                except Exception:      # shrinking is best effort
                    small = None
            trie_only = all(q.get("cls") in ("T", "A", "Q", "B") for b in bad for q in b[2])
            key = KEY_G if (trie_only and not info["closed"] and info["blanks"] > 0) else None
            if ctx.violation("left: %s disagrees (%s) on `%s`" % (NAMES.get(p.get("cls"), "model"), p["kind"], op[:80]),
                             dict(base, op=op, first_problem=p, all_problems=probs[:6], failing_ops=len(bad), reproduces_alone=alone,
                                  shrunk_arpa=small,
                                  trie_family_only=trie_only, impl_line=o1[1 + oi][:1500], model_line=o2[1 + oi][:1500]), key=key):
                found = True
        if ci < 2:
            ctx.sample({"stream": "left", "meta": case.meta, "info": {k: info[k] for k in ("order", "blanks", "closed", "ctxbo")},
                        "ops": ops[:3], "impl": o1[1][:300]})
    return found


def run(ctx):
    problems, consts = flow.proof_phase(ctx, "C08", probe="probe_C08.cc", required=REQUIRED, drivers=["drv_C08"])
    ok, hexe, lg = repo.harness("c08_left.cc", libs=True, config="asan")
    if not ok:
        problems.append(lg)
    dexe = lean.driver_path("drv_C08")
    if not ok or not os.path.exists(dexe):
        flow.report_obligation_failures(ctx, problems or ["driver drv_C08 missing"], False)
        return
    quick = ctx.tier == "quick"
    found = left_stream(ctx, hexe, dexe, 24 if quick else 400, quick)
    ctx.cov["rule"] = ("left: one evaluation = one op (a derivation / an ExtendLeft chain / a reveal protocol / a Subsume) on one "
                       "loaded model configuration; distinct by (ARPA bytes, op); a derivation is non-trivial when it contains "
                       "at least one non-terminal")
    ctx.assumptions += ["64-bit hash injectivity on the n-grams of each generated model",
                        "float32 sums within 8(k+1)*2^-23*sum|terms| of the exact rational value (16x for rest-cost models)",
                        "quantised classes compared in value only when every order's value count fits the bins",
                        "REST_LOWER only with lower-order files listing the same unigrams in the same order (with or without <unk>)",
                        "Subsume only with between_length = 0"]
    flow.report_obligation_failures(ctx, problems, found)
