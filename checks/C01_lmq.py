"""The `lm-query` stream shared by C01, C02, C03: run a generated case through harness/c01_lmquery.cc
(the six real model classes) and lean/Driver/C01.lean (L0 spec + L1 algorithm), parse and compare.

Comparison rules (DESIGN §5 C01 Tie):
 * oracle: |impl.prob - score| <= (k+1)*2^-23*sum|terms| + k*2^-149, score = exact rational L0 recursion
   computed by the Lean driver from the same ARPA bytes (independent of the algorithm under test);
   quantised classes only when the value count of every order fits the bins (pre-observation D);
 * structure (ngram_length, independent_left, out-state length/words/back-offs): model algorithm vs
   implementation, exact, for all six classes on all models incl. SRI-pruned ones (pre-observation G, the trie
   dropping "extends" marks of trailing blanks, is repaired in /repo by 0f1ce5c: `unmarked` is empty);
 * when suffix-closed additionally the L0 specs: ngram_length = longest match, independent_left = spec.
"""
import os
from fractions import Fraction

from vlib import stream
from vlib.common import run

from . import lmgen

CLASSES = "PRTAQB"
NAMES = {"P": "ProbingModel", "R": "RestProbingModel", "T": "TrieModel", "A": "ArrayTrieModel",
         "Q": "QuantTrieModel", "B": "QuantArrayTrieModel"}
TWO23 = Fraction(1, 2 ** 23)
TINY = Fraction(1, 2 ** 149)


class Rec:
    __slots__ = ("w", "F", "G", "S", "spec", "lm", "k", "abs", "ilF", "ilG", "qF", "qG")


def _state(toks):
    n = int(toks[0])
    ws = [] if toks[1] == "-" else toks[1].split(",")
    bs = [] if toks[2] == "-" else toks[2].split(",")
    return (n, ws, bs)


def _ret(toks):
    return {"prob": toks[0], "len": int(toks[1]), "indep": int(toks[2]), "out": _state(toks[3:6])}


def parse_impl_line(line):
    """-> {class: [Rec]}"""
    out = {}
    for seg in line.split(" ## "):
        seg = seg.strip()
        if not seg:
            continue
        cls, body = seg[0], seg[2:].strip()
        recs = []
        for r in body.split(" | ") if body else []:
            t = r.split(" ")
            x = Rec()
            x.w = t[0]
            x.F = _ret(t[1:7])
            x.G = _ret(t[7:13])
            x.S = _state(t[13:16])
            recs.append(x)
        out[cls] = recs
    return out


def parse_model_line(line):
    recs = []
    for r in line.split(" | ") if line.strip() else []:
        t = r.split(" ")
        x = Rec()
        x.w = t[0]
        x.spec = lmgen.frac(t[1])
        x.F = _ret(t[2:8])
        x.G = _ret(t[8:14])
        x.S = _state(t[14:17])
        x.lm = int(t[17])
        x.k = int(t[18])
        x.abs = lmgen.frac(t[19])
        x.ilF = int(t[20])
        x.ilG = int(t[21])
        x.qF = int(t[22])
        x.qG = int(t[23])
        recs.append(x)
    return recs


def parse_info(line):
    """'arpa ok order=.. k=v ..' -> dict, or {'error': cls}"""
    t = line.split()
    if len(t) >= 3 and t[1] == "error":
        return {"error": t[2]}
    d = {}
    for kv in t[2:]:
        k, v = kv.split("=", 1)
        d[k] = v
    for k in ("real", "blank", "nzbo"):
        d.setdefault(k, "-")
        d[k] = [int(x) for x in d[k].split(",")] if d.get(k, "-") != "-" else []
    for k in ("order", "entries", "blanks", "closed", "ctx", "proper", "distinct", "unk", "hashinj"):
        d[k] = int(d[k])
    return d


def parse_load(line):
    d = {}
    for kv in line.split()[1:]:
        k, v = kv.split("=", 1)
        d[k] = v
    return d


def fbits(h):
    return Fraction(lmgen.float_from_bits(h))


def quant_fits(info, pbits=8, bbits=8):
    N = info["order"]
    for n in range(2, N + 1):
        cnt = info["real"][n - 1] + (info["blank"][n - 1] if n < N else 0)
        if cnt > (1 << pbits):
            return False
        if n < N and info["nzbo"][n - 1] > (1 << bbits) - 2:
            return False
    return True


def tol(rec):
    return (rec.k + 1) * TWO23 * rec.abs + rec.k * TINY


def close_bo(impl_hex, model_rat):
    a = fbits(impl_hex)
    b = lmgen.frac(model_rat)
    return abs(a - b) <= TWO23 * abs(b) + TINY


def state_equal(si, sm):
    """implementation state (float bits) vs model state (rationals)"""
    if si[0] != sm[0] or si[1] != sm[1] or len(si[2]) != len(sm[2]):
        return False
    return all(close_bo(x, y) for x, y in zip(si[2], sm[2]))


def write_case(case, workdir, name="case"):
    os.makedirs(workdir, exist_ok=True)
    path = os.path.join(workdir, name + ".arpa")
    with open(path, "wb") as f:
        f.write(case.arpa)
    return path


def make_ops(path, case, classes=CLASSES, extra=""):
    ops = ["arpa %s mult=%s abits=%d classes=%s%s" % (path, case.mult, case.abits, classes, extra)]
    for start, ws in case.queries:
        ops.append("q %s %s" % (start, " ".join(ws)))
    return ops


def bucket_counts(case):
    """bucket count of the probing tables of orders 2..N exactly as util::ProbingHashTable::Size computes it:
    max(entries + 1, (uint64)(multiplier * (float)entries)) in float32 arithmetic"""
    m32 = lmgen.float_round(case.mult)
    out = []
    for n in range(2, case.order + 1):
        c = len(case.grams[n])
        prod = lmgen.float_round(m32 * lmgen.float_round(float(c)))
        out.append(max(c + 1, int(prod)))
    return out


def enum_keys(case, rng, limit=400):
    """every n-gram of the ARPA and every suffix of it (= reversed prefix: the entries, real or blank, the builder must
    have created), forward word order; plus a few absent keys"""
    keys = set()
    for n, tab in case.grams.items():
        for g in tab:
            for j in range(1, len(g) + 1):
                keys.add(tuple(g[len(g) - j:]))
    keys = sorted(keys)
    if len(keys) > limit:
        keys = rng.sample(keys, limit)
    extra = []
    for k in keys[:20]:
        if len(k) >= 2:
            extra.append(tuple(reversed(k)))
    return [k for k in keys] + extra


def parse_enum_impl(line):
    out = {}
    for seg in line.split(" ## "):
        seg = seg.strip()
        if seg:
            out[seg[0]] = seg[2:].strip().split(" ")
    return out


def compare_enum(case, keys, impl_load_line, info, impl_lines, model_lines):
    """entry-by-entry comparison of the built probing structure (H3): found, sign bit of prob ("does not extend left"),
    |prob|, back-off value and its +0/-0 extension bit, rest (RestProbingModel)."""
    problems = []
    load = parse_load(impl_load_line)
    n = 0
    if info.get("prep") == "0":
        problems.append({"kind": "represents", "cls": "P", "what": "the model-built probing structure does not represent Table.build "
                         "(run-time counterexample to probing_build_represents)"})
    for cls, key in (("P", "pbuild"), ("R", "pbuildrest")):
        il, ml = load.get(cls), info.get(key)
        if il is None or ml is None:
            continue
        if (il == "ok") != (ml == "ok") or (il != "ok" and il != ml):
            problems.append({"kind": "build-verdict", "cls": cls, "impl": il, "model": ml})
    for k, il, ml in zip(keys, impl_lines, model_lines):
        I, M = parse_enum_impl(il), parse_enum_impl(ml)
        for cls in "PR":
            if cls not in I or cls not in M or load.get(cls) != "ok" or M[cls][0] == "error":
                continue
            a, b = I[cls], M[cls]
            n += 1
            if a[0] != b[0]:
                problems.append({"kind": "enum-found", "cls": cls, "key": list(k), "impl": a, "model": b})
                continue
            if a[0] == "0":
                continue
            pbits = int(a[1], 16)
            neg = pbits >> 31
            mag = abs(fbits(a[1]))
            mm = lmgen.frac(b[2])
            bad = None
            if neg != int(b[1]):
                bad = "sign bit of prob (extends-left mark)"
            elif abs(mag - mm) > Fraction(1, 2 ** 19) * (mm + 1):
                bad = "probability"
            elif a[2] != "-":
                bo, mbo = fbits(a[2]), lmgen.frac(b[3])
                xr = 0 if int(a[2], 16) == 0x80000000 else 1
                if abs(bo - mbo) > TWO23 * abs(mbo) + TINY:
                    bad = "back-off"
                elif xr != int(b[4]):
                    bad = "back-off extension bit (+0/-0)"
                elif abs(fbits(a[3]) - lmgen.frac(b[5])) > Fraction(1, 2 ** 19) * (abs(lmgen.frac(b[5])) + 1):
                    bad = "rest"
            if bad:
                problems.append({"kind": "enum-" + bad, "cls": cls, "key": list(k), "impl": a, "model": b})
    return problems, n


def run_both(hexe, dexe, ops, timeout=300, max_order=6):
    rc1, o1, e1 = stream.run_lines(hexe, ops, timeout)
    rc2, o2, e2 = stream.run_lines(dexe, ops, timeout, args=[str(max_order)])
    return (rc1, o1, e1), (rc2, o2, e2)


def compare(case, impl_lines, model_lines, classes=CLASSES, want=("oracle", "struct", "spec"), pbits=8, bbits=8):
    """Returns (problems, stats).  problems: list of dicts {kind, cls, query, pos, ...}."""
    problems = []
    stats = {"words": 0, "nontrivial": 0, "skipped": None}
    info = parse_info(model_lines[0])
    load = parse_load(impl_lines[0])
    stats["info"] = info
    stats["load"] = load
    if "error" in info:
        # the model rejects: every class must reject too (error class compared coarsely)
        for c in classes:
            if load.get(c) == "ok":
                problems.append({"kind": "load-verdict", "cls": c, "model": info["error"], "impl": "ok"})
        stats["skipped"] = "model-rejects"
        return problems, stats
    if not info["ctx"] or not info["distinct"]:
        stats["skipped"] = "outside-input-class"
        return problems, stats
    if not info.get("hashinj", 1):
        stats["skipped"] = "hash-collision"      # hypothesis of probing_refines violated: discarded and counted
        return problems, stats
    loaded = [c for c in classes if load.get(c) == "ok"]
    for c in classes:
        if load.get(c) != "ok":
            if c in "PR" and load.get(c) == "probing-size":
                stats.setdefault("probing_size", []).append(c)   # blanks exceed the slack: documented, counted
                continue
            problems.append({"kind": "load-verdict", "cls": c, "model": "ok", "impl": load.get(c)})
    if not info["proper"]:
        stats["skipped"] = "improper"
        return problems, stats
    closed = bool(info["closed"])
    qfit = quant_fits(info, pbits, bbits)
    stats["qfit"] = qfit
    for qi, (start, ws) in enumerate(case.queries):
        il = impl_lines[1 + qi] if 1 + qi < len(impl_lines) else ""
        ml = model_lines[1 + qi] if 1 + qi < len(model_lines) else ""
        M = parse_model_line(ml)
        I = parse_impl_line(il)
        if len(M) != len(ws):
            problems.append({"kind": "driver-output", "query": qi})
            continue
        for c in loaded:
            R = I.get(c)
            if R is None or len(R) != len(ws):
                problems.append({"kind": "harness-output", "cls": c, "query": qi})
                continue
            for pos, (ri, rm) in enumerate(zip(R, M)):
                if c == loaded[0]:
                    stats["words"] += 1
                    if rm.F["len"] >= 2 or rm.k >= 2:
                        stats["nontrivial"] += 1
                    # runtime instance of theorem fullScore_prob / forgot_prob on the model side
                    if lmgen.frac(rm.F["prob"]) != rm.spec or lmgen.frac(rm.G["prob"]) != rm.spec:
                        problems.append({"kind": "model-vs-spec", "query": qi, "pos": pos,
                                         "spec": str(rm.spec), "F": rm.F["prob"], "G": rm.G["prob"]})
                quant = c in "QB"
                t = tol(rm)
                if "oracle" in want and (not quant or qfit):
                    for nm, r in (("FullScore", ri.F), ("FullScoreForgotState", ri.G)):
                        d = abs(fbits(r["prob"]) - rm.spec)
                        if d > t:
                            problems.append({"kind": "oracle-prob", "cls": c, "call": nm, "query": qi, "pos": pos,
                                             "impl": float(fbits(r["prob"])), "spec": float(rm.spec), "spec_exact": str(rm.spec),
                                             "tol": float(t), "quant_lossless_expected": qfit if quant else None})
                if "struct" in want:      # all six classes, pruned models included (trie marks repaired by 0f1ce5c)
                    for nm, r, m, q in (("FullScore", ri.F, rm.F, rm.qF), ("FullScoreForgotState", ri.G, rm.G, rm.qG)):
                        mi = m["indep"]     # (the probing unigram sign-bit quirk `q` is repaired by repo patch 60)
                        if r["len"] != m["len"] or r["indep"] != mi or \
                                (not quant or qfit) and not state_equal(r["out"], m["out"]) or \
                                (quant and not qfit) and (r["out"][0] != m["out"][0] or r["out"][1] != m["out"][1]):
                            problems.append({"kind": "struct", "cls": c, "call": nm, "query": qi, "pos": pos,
                                             "impl": [r["len"], r["indep"], r["out"]], "model": [m["len"], m["indep"], m["out"]]})
                    okS = state_equal(ri.S, rm.S) if (not quant or qfit) else (ri.S[0] == rm.S[0] and ri.S[1] == rm.S[1])
                    if not okS:
                        problems.append({"kind": "struct", "cls": c, "call": "GetState", "query": qi, "pos": pos,
                                         "impl": ri.S, "model": rm.S})
                if "spec" in want and closed:
                    if ri.F["len"] != rm.lm or ri.G["len"] != rm.lm:
                        problems.append({"kind": "spec-length", "cls": c, "query": qi, "pos": pos,
                                         "impl": [ri.F["len"], ri.G["len"]], "longest_match": rm.lm})
                    if ri.F["indep"] != rm.ilF or ri.G["indep"] != rm.ilG:
                        quirk = (c in "PR" and ri.F["indep"] == rm.qF and ri.G["indep"] == rm.qG and
                                 (rm.qF != rm.F["indep"] or rm.qG != rm.G["indep"]))
                        problems.append({"kind": "spec-indep-left", "cls": c, "query": qi, "pos": pos,
                                         "impl": [ri.F["indep"], ri.G["indep"]], "spec": [rm.ilF, rm.ilG],
                                         "explained_by_unigram_sign_quirk": quirk, "known_key": None})
    return problems, stats


def shrink_queries(case, fails):
    """keep only the first failing query, then shorten it"""
    import copy
    best = case
    for i in range(len(case.queries)):
        c2 = copy.copy(case)
        c2.queries = [case.queries[i]]
        if fails(c2):
            best = c2
            start, ws = c2.queries[0]
            while len(ws) > 1:
                c3 = copy.copy(c2)
                c3.queries = [(start, ws[:-1])]
                if fails(c3):
                    ws = ws[:-1]
                    best = c3
                else:
                    break
            break
    return best
