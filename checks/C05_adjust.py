"""C05, stream `adjust`: the real lm::builder::AdjustCounts (harness/c05_adjust.cc, in-process through
util::stream::Chains) versus the Lean model KV.KN.adjust (`drv_C05 adjust`) on the *same arbitrary
sorted n-gram tables* -- tables of small corpora, synthetic well-formed tables that no corpus
produces, and boundary shapes -- plus an independent oracle: the set-based definition of the adjusted
counts (distinct left extensions; true count behind <s>; <unk>, <s> zero), the marks by true count
and the Chen-Goodman discounts of the counts-of-counts, recomputed here in exact arithmetic.

Case grammar (one line, shared by both executables):
    order thr_1,...,thr_order excl|- ; w_1 ... w_order count ; w_1 ... w_order count ; ...
rows in natural word order, sorted in suffix order (last word, then the one before, ...), distinct;
ids: 0=<unk> 1=<s> 2=</s>, words >= 3.  For order 1 the rows are the unigram stream as CorpusCount's
Writer produces it (leading `0 0` and `1 0`).
Answer line: `n|count|count_pruned|D1 D2 D3|w_w:adjusted:mark ...` per order, joined by ` ; `.

Use from checks/C05.py:
    from checks import C05_adjust
    found |= C05_adjust.adjust_stream(ctx, flags, 300)      # flags = (flushAdjusted, keepSpecials)
"""
import collections
import os
import shutil
from fractions import Fraction

from vlib import lean, repo, stream
from vlib.common import SCRATCH, run, log
from checks import C05_lib as L

FALLBACK = [Fraction(1, 2), Fraction(1), Fraction(3, 2)]
DISC_TOL = 2e-5
UNK, BOS, EOS = 0, 1, 2


# ------------------------------------------------------------------------------ executables
def build_harness():
    """-> (ok, exe, log).  Links the tree's libkenlm_builder.a next to libkenlm.a / libkenlm_util.a."""
    ok, bdir, lg = repo.build("tools")
    if not ok:
        return False, None, lg
    lib = os.path.join(bdir, "lib")
    extra = [os.path.join(lib, "libkenlm_builder.a"), os.path.join(lib, "libkenlm.a"), os.path.join(lib, "libkenlm_util.a"),
             "-lboost_program_options", "-lboost_system", "-lboost_thread"]
    return repo.harness("c05_adjust.cc", libs=True, config="tools", extra=extra)


def run_batch(cmd, lines, timeout):
    rc, o, e = run(cmd, timeout=timeout, input=("".join(l + "\n" for l in lines)).encode())
    return rc, o.split("\n")[:-1] if o.endswith("\n") else o.split("\n"), e


def model_cmd(dexe, flags):
    return [dexe, "adjust", "flushAdjusted=%d" % (1 if flags[0] else 0), "keepSpecials=%d" % (1 if flags[1] else 0)]


# ------------------------------------------------------------------------------ case lines
def sort_rows(rows):
    return sorted(rows, key=lambda r: r[0][::-1])


def case_line(order, thr, excl, rows):
    head = "%d %s %s" % (order, ",".join(str(t) for t in thr), ",".join(str(x) for x in sorted(excl)) if excl else "-")
    return " ; ".join([head] + ["%s %d" % (" ".join(str(w) for w in g), c) for g, c in rows])


def parse_case(line):
    parts = line.split(";")
    h = parts[0].split()
    order = int(h[0])
    thr = [int(x) for x in h[1].split(",")]
    excl = set() if h[2] == "-" else {int(x) for x in h[2].split(",")}
    rows = []
    for p in parts[1:]:
        f = [int(x) for x in p.split()]
        if f:
            rows.append((tuple(f[:-1]), f[-1]))
    return order, thr, excl, rows


def parse_answer(line):
    """-> {n: (count, count_pruned, [D1,D2,D3] as Fractions, [(gram, adjusted, mark)])} or None (error line)."""
    if line.startswith("error") or "|" not in line:
        return None
    out = {}
    for part in line.split(" ; "):
        f = part.split("|")
        if len(f) != 5:
            return None
        ds = [Fraction(x) for x in f[3].split()]
        recs = []
        for r in f[4].split():
            g, c, m = r.split(":")
            recs.append((tuple(int(w) for w in g.split("_")), int(c), int(m)))
        out[int(f[0])] = (int(f[1]), int(f[2]), ds, recs)
    return out


# ------------------------------------------------------------------------------ generators
def table_of_corpus(sents, order):
    """The suffix-sorted order-N count table exactly as lmplz's CorpusCount + Sort<SuffixOrder, CombineCounts>
    hand it to AdjustCounts: N-1 times <s>, the words, one </s>; windows counted; sorted by reversed tuple."""
    cnt = collections.Counter()
    for s in sents:
        toks = [BOS] * (order - 1) + list(s) + [EOS]
        for i in range(len(toks) - order + 1):
            cnt[tuple(toks[i:i + order])] += 1
    rows = sort_rows(cnt.items())
    if order == 1:
        rows = [((UNK,), 0), ((BOS,), 0)] + rows
    return rows


def gen_thr(rng, order):
    r = rng.random()
    if r < 0.45:
        return [0] * order
    if r < 0.6:                      # higher orders only
        t, cur = [0], 0
        for _ in range(order - 1):
            cur += rng.choice((0, 0, 1, 2))
            t.append(cur)
        return t
    cur = rng.choice((0, 1, 1, 2, 3, 7))     # unigram threshold too
    t = []
    for _ in range(order):
        t.append(cur)
        cur += rng.choice((0, 0, 1, 2, 5))
    return t


def gen_excl(rng, V):
    if rng.random() < 0.65:
        return set()
    return {w for w in range(3, V + 3) if rng.random() < 0.3}


def gen_count(rng):
    r = rng.random()
    if r < 0.9:
        return rng.randint(1, 6)
    if r < 0.97:
        return rng.randint(7, 40)
    return rng.choice((2 ** 31, 2 ** 32 + 1, 2 ** 40, 2 ** 62))


def gen_gram(rng, order, V):
    """A well-formed n-gram: a run of <s> at the front (possibly empty, never the whole n-gram), words, </s> only last."""
    k = 0
    if order >= 2 and rng.random() < 0.3:
        k = rng.randint(1, order - 1)
    body = [rng.randint(3, V + 2) for _ in range(order - k)]
    if rng.random() < 0.2:
        body[-1] = EOS
    return tuple([BOS] * k + body)


def gen_corpus_case(rng):
    order = rng.choice((1, 2, 2, 3, 3, 3, 4, 4, 5, 6))
    V = rng.choice((1, 2, 2, 3, 3, 4, 6, 12))
    sents = []
    for _ in range(rng.choice((15, 25, 40)) if rng.random() < 0.2 else rng.randint(1, 9)):
        if sents and rng.random() < 0.2:
            sents.append(list(rng.choice(sents)))          # repeated sentence
        else:
            n = rng.choice((0, 1, 1, 2, 2, 3, 3, 4, 5, 7))
            sents.append([min(V, int(rng.paretovariate(1.1))) + 2 for _ in range(n)])
    return "corpus", order, V, table_of_corpus(sents, order)


def gen_synthetic_case(rng):
    order = rng.choice((1, 2, 2, 3, 3, 3, 4, 4, 5, 6))
    V = rng.choice((1, 2, 2, 3, 3, 4, 5))
    if order == 1:
        ids = [w for w in range(2, V + 3) if rng.random() < 0.7]
        rows = [((UNK,), 0), ((BOS,), 0)] + [((w,), gen_count(rng)) for w in ids]
        return "synthetic", order, V, rows
    grams = set()
    for _ in range(rng.choice((1, 2, 3, 5, 8, 13, 21, 34, 55, 89))):
        if grams and rng.random() < 0.5:
            # a sibling of an existing n-gram: same suffix, other first word(s)
            base = list(rng.choice(sorted(grams)))
            j = rng.randint(1, max(1, order - 1))
            head = [BOS] * rng.randint(0, j) if rng.random() < 0.25 else []
            head = head + [rng.randint(3, V + 2) for _ in range(j - len(head))]
            g = tuple(head + base[j:])
            # keep it well formed: <s> only as a front run
            seen_word = False
            okg = True
            for w in g:
                if w == BOS and seen_word:
                    okg = False
                if w != BOS:
                    seen_word = True
            if okg and seen_word and EOS not in g[:-1]:
                grams.add(g)
        else:
            grams.add(gen_gram(rng, order, V))
    return "synthetic", order, V, sort_rows((g, gen_count(rng)) for g in grams)


def gen_boundary_case(rng):
    order = rng.choice((1, 2, 2, 3, 3, 4, 5, 6))
    V = rng.choice((2, 3, 4))
    shape = rng.choice(("single", "long-suffix", "last-row", "bos-runs", "specials-only"))
    if order == 1:
        if shape == "specials-only":
            rows = [((UNK,), 0), ((BOS,), 0)]
        elif shape == "single":
            rows = [((UNK,), 0), ((BOS,), 0), ((rng.choice((EOS, 3, 4)),), gen_count(rng))]
        else:
            rows = [((UNK,), 0), ((BOS,), 0), ((EOS,), gen_count(rng))] + [((w,), gen_count(rng)) for w in range(3, V + 3)]
        return "boundary:" + shape, order, V, rows
    grams = {}
    if shape == "single" or shape == "specials-only":
        if shape == "specials-only":
            g = tuple([BOS] * (order - 1) + [EOS])           # the empty sentence
        else:
            g = gen_gram(rng, order, V)
        grams[g] = gen_count(rng)
    elif shape == "long-suffix":
        suffix = list(gen_gram(rng, order, V))[1:]
        while BOS in suffix:
            suffix = [rng.randint(3, V + 2) for _ in range(order - 1)]
        firsts = [w for w in [BOS] + list(range(3, V + 5)) if rng.random() < 0.7] or [3]
        for w in firsts:
            grams[tuple([w] + suffix)] = gen_count(rng)
    elif shape == "last-row":
        # the last rows (largest last word) share their suffixes and have counts > 1: every lower-order suffix of
        # the last row is flushed with adjusted count != true count
        top = V + 3
        depth = rng.randint(1, order - 1)
        suffix = [rng.randint(3, V + 2) for _ in range(depth - 1)] + [top]
        for _ in range(rng.randint(2, 4)):
            head = [rng.randint(3, V + 4) for _ in range(order - depth)]
            grams[tuple(head + suffix)] = rng.randint(2, 6)
        for _ in range(rng.randint(0, 6)):
            grams[gen_gram(rng, order, V)] = gen_count(rng)
    else:   # bos-runs: <s> <s> ... w
        for w in [EOS] + list(range(3, V + 3)):
            for k in range(1, order):
                if rng.random() < 0.6:
                    rest = [rng.randint(3, V + 2) for _ in range(order - k - 1)] + [w]
                    grams[tuple([BOS] * k + rest)] = gen_count(rng)
        if not grams:
            grams[tuple([BOS] * (order - 1) + [3])] = 1
    return "boundary:" + shape, order, V, sort_rows(grams.items())


def gen_case(rng):
    r = rng.random()
    if r < 0.4:
        cls, order, V, rows = gen_corpus_case(rng)
    elif r < 0.85:
        cls, order, V, rows = gen_synthetic_case(rng)
    else:
        cls, order, V, rows = gen_boundary_case(rng)
    return cls, case_line(order, gen_thr(rng, order), gen_excl(rng, V), rows)


# ------------------------------------------------------------------------------ the definition (oracle)
def definition(order, thr, excl, rows):
    """{n: (count, count_pruned, stats [n0..n4], {gram: (adjusted, mark)})} by the set-based definition.
    Lower-order n-grams are the suffixes of the rows that contain <s> at most as their first word."""
    res = {}
    bad = lambda g: any(w in excl for w in g)
    if order == 1:
        recs = {}
        for g, c in rows:
            recs[g] = (c, 0 if g[0] <= 2 else int(c <= thr[0] or bad(g)))
        res[1] = recs
    else:
        true = [None] + [collections.Counter() for _ in range(order)]
        ext = [None] + [collections.defaultdict(set) for _ in range(order)]
        for g, c in rows:
            for n in range(1, order + 1):
                s = g[order - n:]
                if BOS in s[1:]:
                    break
                true[n][s] += c
                if n >= 2:
                    ext[n - 1][s[1:]].add(s[0])
        for n in range(1, order):
            recs = {}
            for s, c in true[n].items():
                adj = c if s[0] == BOS else len(ext[n][s])
                special = n == 1 and s[0] <= 2
                recs[s] = (adj, 0 if special else int(c <= thr[n - 1] or bad(s)))
            if n == 1:
                recs[(UNK,)] = (0, 0)
                recs[(BOS,)] = (0, 0)
            res[n] = recs
        res[order] = {g: (c, int(c <= thr[order - 1] or bad(g))) for g, c in true[order].items()}
    out = {}
    for n, recs in res.items():
        st = [0] * 5
        for a, _ in recs.values():
            if a < 5:
                st[a] += 1
        out[n] = (len(recs), sum(1 for _, m in recs.values() if not m), st, recs)
    return out


def discounts_of(st):
    d = L.chen_goodman(st)
    return FALLBACK if d is None else d


def near_boundary(st):
    return L.near_discount_boundary({0: st})


def discs_differ(a, b):
    return any(abs(float(x) - float(y)) > DISC_TOL * max(1.0, abs(float(y))) for x, y in zip(a, b)) or len(a) != len(b)


def flush_variant_stats(order, rows, n, st, recs):
    """Counts-of-counts of order n when the last n-gram (suffix order) is entered with its true count
    (the unrepaired final flush); used only to decide whether a discount comparison is near a boundary."""
    if n >= order or not recs:
        return st
    last = max(recs, key=lambda g: g[::-1])
    true = sum(c for g, c in rows if g[order - n:] == last)
    st2 = list(st)
    a = recs[last][0]
    if a < 5:
        st2[a] -= 1
    if true < 5:
        st2[true] += 1
    return st2


def oracle_findings(line, hans, hist=None):
    """Compare one harness answer with the definition.  -> list of (kind, message)."""
    order, thr, excl, rows = parse_case(line)
    ref = definition(order, thr, excl, rows)
    out = []
    if hans is None:
        return [("class", "AdjustCounts fails on a well-formed table")]
    for n in range(1, order + 1):
        cnt, kept, st, recs = ref[n]
        hc, hk, hd, hrecs = hans.get(n, (None, None, [], []))
        hmap = {}
        for g, a, m in hrecs:
            if g in hmap:
                out.append(("records", "order %d: n-gram %r is output twice" % (n, g)))
            hmap[g] = (a, m)
        if set(hmap) != set(recs):
            out.append(("records", "order %d n-gram sets differ: only AdjustCounts %r, only definition %r" % (
                n, sorted(set(hmap) - set(recs))[:3], sorted(set(recs) - set(hmap))[:3])))
            continue
        wrong_adj = [(g, hmap[g][0], recs[g][0]) for g in sorted(recs) if hmap[g][0] != recs[g][0]]
        if wrong_adj:
            g, a, b = wrong_adj[0]
            out.append(("adjusted", "order %d n-gram %r: adjusted count %d, definition %d" % (n, g, a, b)))
        wrong_mark = [(g, hmap[g][1], recs[g][1]) for g in sorted(recs) if hmap[g][1] != recs[g][1]]
        if wrong_mark:
            g, a, b = wrong_mark[0]
            kind = "marks-specials" if all(len(g) == 1 and g[0] <= 2 for g, _, _ in wrong_mark) else "marks"
            out.append((kind, "order %d n-gram %r: prune mark %d, definition (true count vs threshold %d, excluded words) %d" % (
                n, g, a, thr[n - 1], b)))
        if hc != cnt:
            out.append(("counts", "order %d: counts[%d] = %r, definition %d" % (n, n - 1, hc, cnt)))
        if hk != kept and not wrong_mark:
            out.append(("counts", "order %d: counts_pruned[%d] = %r, definition %d" % (n, n - 1, hk, kept)))
        if wrong_adj:
            continue
        want = discounts_of(st)
        if hist is not None:
            hist("adjust.discounts", "fallback" if want is FALLBACK else "closed-form")
        if discs_differ(hd, want):
            if near_boundary(st) or near_boundary(flush_variant_stats(order, rows, n, st, recs)):
                if hist is not None:
                    hist("adjust.skipped", "discount-boundary")
                continue
            out.append(("discounts", "order %d: discounts %s, Chen-Goodman on the counts-of-counts %r of the adjusted counts: %s" % (
                n, " ".join("%.6g" % float(x) for x in hd), st[1:], " ".join("%.6g" % float(x) for x in want))))
    return out


def corr_findings(line, hline, mline):
    """Harness answer vs model answer.  -> list of (kind, message)."""
    if hline == mline:
        return []
    h, m = parse_answer(hline), parse_answer(mline)
    if h is None or m is None:
        return [("class", "AdjustCounts: %s, model: %s" % (hline[:80], mline[:80]))]
    order, thr, excl, rows = parse_case(line)
    out = []
    for n in range(1, order + 1):
        if n not in h or n not in m:
            out.append(("records", "order %d missing in an answer" % n))
            continue
        hc, hk, hd, hr = h[n]
        mc, mk, md, mr = m[n]
        if hr != mr:
            a = [r for r in hr if r not in mr][:3]
            b = [r for r in mr if r not in hr][:3]
            out.append(("records", "order %d records differ: only AdjustCounts %r, only model %r" % (n, a, b)))
        if (hc, hk) != (mc, mk):
            out.append(("counts", "order %d: AdjustCounts counts/counts_pruned %d/%d, model %d/%d" % (n, hc, hk, mc, mk)))
        if discs_differ(hd, md):
            recs = {g: (a, k) for g, a, k in mr}
            st = [0] * 5
            for a, _ in recs.values():
                if a < 5:
                    st[a] += 1
            if near_boundary(st) or near_boundary(flush_variant_stats(order, rows, n, st, recs)):
                continue
            out.append(("discounts", "order %d: AdjustCounts discounts %s, model %s" % (
                n, " ".join("%.6g" % float(x) for x in hd), " ".join(str(x) for x in md))))
    return out


# ------------------------------------------------------------------------------ shrinking
def shrink(line, fails):
    """ddmin over the table rows (a sub-list of a sorted list stays sorted), then simpler options and counts."""
    order, thr, excl, rows = parse_case(line)
    keep = 2 if order == 1 else 0
    mk = lambda rs, t=thr, x=excl: case_line(order, t, x, rs)
    rows = stream.ddmin(rows, lambda rs: len(rs) > 0 and fails(mk(rs)), keep_prefix=keep, max_tests=150)
    if excl and fails(case_line(order, thr, set(), rows)):
        excl = set()
    if any(thr) and fails(case_line(order, [0] * order, excl, rows)):
        thr = [0] * order
    for i, (g, c) in enumerate(rows):
        if c > 1:
            cand = rows[:i] + [(g, 1)] + rows[i + 1:]
            if fails(case_line(order, thr, excl, cand)):
                rows = cand
    return case_line(order, thr, excl, rows)


# ------------------------------------------------------------------------------ the stream
def adjust_stream(ctx, consts_flags, n_cases):
    """Runs n_cases generated tables through AdjustCounts and the model.  True iff a violation was reported."""
    flags = (bool(consts_flags[0]), bool(consts_flags[1]))
    dexe = lean.driver_path("drv_C05")
    ok, hexe0, lg = build_harness()
    if not ok:
        ctx.violation("stream adjust: harness/c05_adjust.cc does not build against the tree: " + lg[-600:],
                      {"stream": "adjust", "log": lg[-3000:]}, no_input=True)
        return True
    wd = os.path.join(SCRATCH, "c05adj_%d" % os.getpid())
    shutil.rmtree(wd, ignore_errors=True)
    os.makedirs(wd)
    try:
        hexe = os.path.join(wd, "c05_adjust")
        shutil.copy2(hexe0, hexe)
        return _run(ctx, flags, n_cases, hexe, dexe, hexe0)
    finally:
        shutil.rmtree(wd, ignore_errors=True)


def _run(ctx, flags, n_cases, hexe, dexe, hexe_name):
    cases = []
    seen = set()
    # fixed witnesses first: the table of adjust_counts_test.cc's shape and the flush witness
    fixed = [("witness", case_line(2, [0, 0], set(), sort_rows([((1, 3), 2), ((3, 3), 1), ((4, 3), 1), ((3, 2), 2), ((3, 4), 3), ((4, 4), 2)]))),
             ("witness", case_line(3, [0, 0, 0], set(), table_of_corpus([[3], [3, 4], [4, 3, 3], [3, 4], [5, 4]], 3)))]
    for cls, line in fixed:
        cases.append((cls, line))
        seen.add(line)
    tries = 0
    while len(cases) < n_cases and tries < 20 * n_cases:
        tries += 1
        cls, line = gen_case(ctx.rng)
        if line in seen:
            continue
        seen.add(line)
        cases.append((cls, line))
    lines = [l for _, l in cases]
    small = ctx.rng.choice((1, 2, 3, 4, 5, 7))
    tmo = 120 + len(lines)
    mcmd = model_cmd(dexe, flags)
    rc_h, hout, herr = run_batch([hexe], lines, tmo)
    rc_b, bout, berr = run_batch([hexe, "block=%d" % small, "blocks=%d" % ctx.rng.choice((1, 2, 3))], lines, tmo)
    rc_m, mout, merr = run_batch(mcmd, lines, tmo)
    found = False
    replay_cmds = {"harness": "printf '%%s\\n' \"$case\" | %s" % hexe_name,
                   "model": "printf '%%s\\n' \"$case\" | %s" % " ".join(mcmd)}

    def rep(what, line, extra):
        o = {"stream": "adjust", "case": line, "flags": {"flushAdjusted": flags[0], "keepSpecials": flags[1]},
             "command": replay_cmds["harness"] + "    # and: " + replay_cmds["model"]}
        o.update(extra)
        ctx.violation(what, o)

    if rc_m != 0 or len(mout) != len(lines):
        rep("stream adjust: the Lean driver stopped (rc=%s) after %d of %d cases: %s" % (rc_m, len(mout), len(lines), merr[-300:]),
            lines[min(len(mout), len(lines) - 1)], {"stderr": merr[-1000:]})
        return True
    for name, rc, outp, err in (("", rc_h, hout, herr), (" (block=%d)" % small, rc_b, bout, berr)):
        if rc != 0 or len(outp) != len(lines):
            at = min(len(outp), len(lines) - 1)
            rep("AdjustCounts harness%s died (rc=%s) on a well-formed sorted table: %s" % (name, rc, err[-300:].strip()),
                lines[at], {"stderr": err[-1000:], "model": mout[at]})
            return True

    def single(line, small_blocks=False):
        cmd = [hexe] + (["block=%d" % small] if small_blocks else [])
        rc, o, _ = run_batch(cmd, [line], 60)
        h = o[0] if rc == 0 and o else "error died(%s)" % rc
        rc, o, _ = run_batch(mcmd, [line], 60)
        m = o[0] if rc == 0 and o else "error driver-died(%s)" % rc
        return h, m

    reported = set()
    for (cls, line), h, b, m in zip(cases, hout, bout, mout):
        order, thr, excl, rows = parse_case(line)
        ctx.count(("adjust", line), nontrivial=len(rows) >= 3)
        ctx.hist("adjust.class", cls)
        ctx.hist("adjust.order", order)
        ctx.hist("adjust.rows", "1" if len(rows) == 1 else "2-3" if len(rows) <= 3 else "4-9" if len(rows) <= 9 else
                 "10-29" if len(rows) <= 29 else "30+")
        ctx.hist("adjust.options", ("thr1" if thr[0] else "thr" if any(thr) else "nothr") + ("+excl" if excl else ""))
        if cls != "witness":
            ctx.sample({"stream": "adjust", "class": cls, "case": line[:160]}, cap=9)
        # 1. correspondence with the model (flags of the tree)
        cf = [("corr", k, msg) for k, msg in corr_findings(line, h, m)]
        if b != h:
            cf.append(("corr", "blocks", "AdjustCounts output depends on the chain block size (block=%d): %s vs %s" % (small, b[:120], h[:120])))
        # 2. the definition
        of = [("oracle", k, msg) for k, msg in oracle_findings(line, parse_answer(h), ctx.hist)]
        for who, kind, msg in cf + of:
            key = (who, kind)
            if key in reported:
                continue
            reported.add(key)
            found = True
            if who == "corr":
                if kind == "blocks":
                    pred = lambda l: (lambda hh, bb: hh != bb)(single(l)[0], single(l, True)[0])
                else:
                    pred = lambda l: any(k == kind for k, _ in corr_findings(l, *single(l)))
            else:
                pred = lambda l: any(k == kind for k, _ in oracle_findings(l, parse_answer(single(l)[0])))
            try:
                sl = shrink(line, pred)
            except Exception as ex:      # never lose the finding because shrinking failed
                log("  shrink failed: %r" % (ex,))
                sl = line
            sh, sm = single(sl)
            if who == "corr":
                msgs = [mm for k, mm in corr_findings(sl, sh, sm) if k == kind] or [msg]
                what = "model and AdjustCounts disagree (stream adjust, %s): %s" % (kind, msgs[0][:300])
            else:
                msgs = [mm for k, mm in oracle_findings(sl, parse_answer(sh)) if k == kind] or [msg]
                what = "AdjustCounts deviates from the definition (stream adjust, %s): %s" % (kind, msgs[0][:300])
            rep(what, sl, {"harness": sh, "model": sm, "original_case": line, "class": cls,
                           "definition": {str(n): {"count": v[0], "count_pruned": v[1], "n1..n4": v[2][1:],
                                                   "records": {"_".join(map(str, g)): list(am) for g, am in sorted(v[3].items())}}
                                          for n, v in definition(*parse_case(sl)).items()}})
    return found
