// Harness for stream `state-algebra` (C02): ==, <, Compare, hash_value of lm::ngram::State / Left / ChartState
// on explicit field values (garbage beyond `length` included).  One line per op:
//   S lenA a0 a1 a2 a3 a4 lenB b0 b1 b2 b3 b4
//   L lenA p0..p4 fullA lenB q0..q4 fullB
//   C <L fields of A> <S fields of A> <L fields of B> <S fields of B>     (left: len p0..p4 full, right: len w0..w4)
// Output: eq lt gt sign(Compare) hash_equal
#include "lm/state.hh"
#include <cstdio>
#include <cstring>
#include <iostream>
#include <sstream>
#include <string>
using namespace lm::ngram;

static void ReadState(std::istream &in, State &s, unsigned salt) {
  memset(&s, salt, sizeof s);          // garbage everywhere, including back-offs and padding
  unsigned len; in >> len; s.length = len;
  for (int i = 0; i < KENLM_MAX_ORDER - 1; ++i) { unsigned long long w; in >> w; s.words[i] = (lm::WordIndex)w; }
}
static void ReadLeft(std::istream &in, Left &l, unsigned salt) {
  memset(&l, salt, sizeof l);
  unsigned len; in >> len; l.length = len;
  for (int i = 0; i < KENLM_MAX_ORDER - 1; ++i) { unsigned long long p; in >> p; l.pointers[i] = p; }
  int f; in >> f; l.full = f != 0;
}
static int sgn(int x) { return x < 0 ? -1 : (x > 0 ? 1 : 0); }

int main() {
  std::string line;
  while (std::getline(std::cin, line)) {
    std::istringstream in(line);
    std::string op; in >> op;
    if (op == "S") {
      State a, b; ReadState(in, a, 0x11); ReadState(in, b, 0xEE);
      printf("%d %d %d %d %d\n", (int)(a == b), (int)(a < b), (int)(b < a), sgn(a.Compare(b)), (int)(hash_value(a) == hash_value(b)));
    } else if (op == "L") {
      Left a, b; ReadLeft(in, a, 0x22); ReadLeft(in, b, 0xDD);
      printf("%d %d %d %d %d\n", (int)(a == b), (int)(a < b), (int)(b < a), sgn(a.Compare(b)), (int)(hash_value(a) == hash_value(b)));
    } else if (op == "C") {
      ChartState a, b;
      ReadLeft(in, a.left, 0x33); ReadState(in, a.right, 0x44);
      ReadLeft(in, b.left, 0xCC); ReadState(in, b.right, 0xBB);
      printf("%d %d %d %d %d\n", (int)(a == b), (int)(a < b), (int)(b < a), sgn(a.Compare(b)), (int)(hash_value(a) == hash_value(b)));
    } else {
      puts("bad-op");
    }
  }
  return 0;
}
