// Harness for stream `adjust` (C05): the real lm::builder::AdjustCounts, in-process, on
// arbitrary sorted n-gram tables; mirrored by `drv_C05 adjust` (lean/Driver/C05.lean).
//
// stdin, one case per line:
//   order thr_1,...,thr_order excl(comma list of word ids or -) ; w_1 ... w_order count ; ...
// rows in natural word order, already suffix-sorted and duplicate-free (AdjustCounts assumes
// that); ids uint32, 0=<unk> 1=<s> 2=</s>.  For order 1 the rows are the unigram stream the
// way CorpusCount's Writer produces it (leading `0 0` and `1 0` rows).
// stdout, one line per case: for each order n
//   n|count|count_pruned|D1 D2 D3|w_w_w:adjusted:mark ...      (records sorted), orders joined by " ; "
// argv: block=K  -> chain blocks of K entries (default: one block that holds the whole table);
//       K is raised until rows % K != 0, because CollapseStream::operator++ evaluates the
//       record one past the end of the last block (repo_patches/33) and that record must be
//       inside the block for the run to be well defined.
//       blocks=B -> block_count (default 2)
//       sentinel=0 -> do not initialise the slot behind the last row (see WriteInput)
#include "lm/builder/adjust_counts.hh"
#include "lm/builder/payload.hh"
#include "lm/common/ngram_stream.hh"
#include "lm/lm_exception.hh"
#include "util/scoped.hh"
#include "util/stream/chain.hh"
#include "util/stream/multi_stream.hh"

#include <boost/ref.hpp>

#include <algorithm>
#include <cstdio>
#include <cstdlib>
#include <cstring>
#include <iostream>
#include <string>
#include <vector>

using namespace lm;
using namespace lm::builder;

namespace {

struct Case {
  std::size_t order;
  std::vector<uint64_t> thr;
  bool have_excl;
  std::vector<WordIndex> excl;
  std::vector<std::vector<WordIndex> > rows;
  std::vector<uint64_t> counts;
};

class KeepCopy {
  public:
    KeepCopy() : size_(0) {}
    void Run(const util::stream::ChainPosition &position) {
      for (util::stream::Link link(position); link; ++link) {
        mem_.call_realloc(size_ + link->ValidSize() + 1);
        memcpy(static_cast<uint8_t*>(mem_.get()) + size_, link->Get(), link->ValidSize());
        size_ += link->ValidSize();
      }
    }
    uint8_t *Get() { return static_cast<uint8_t*>(mem_.get()); }
    std::size_t Size() const { return size_; }
  private:
    util::scoped_malloc mem_;
    std::size_t size_;
};

class WriteInput {
  public:
    WriteInput(const Case *c, bool sentinel) : c_(c), sentinel_(sentinel) {}
    void Run(const util::stream::ChainPosition &position) {
      NGramStream<BuildingPayload> input(position);
      for (std::size_t i = 0; i < c_->rows.size(); ++i, ++input) {
        std::copy(c_->rows[i].begin(), c_->rows[i].end(), input->begin());
        input->Value().count = c_->counts[i];
      }
      // CollapseStream::operator++ evaluates the record one past the end of the last block after the
      // stream has ended (count <= threshold, prune_words_[word]); in lmplz that is stale block memory
      // (known finding collapse-stream-past-end, repo_patches/33).  The last block is never full here
      // (see RunCase), so that slot exists: give it defined, harmless contents.  Poison() cuts the
      // block before it; it is never part of the table.
      if (sentinel_) {
        std::fill(input->begin(), input->end(), static_cast<WordIndex>(0));
        input->Value().count = ~0ULL >> 1;
      }
      input.Poison();
    }
  private:
    const Case *c_;
    bool sentinel_;
};

bool ParseList(const std::string &s, std::vector<uint64_t> &out) {
  out.clear();
  if (s == "-" || s.empty()) return true;
  const char *p = s.c_str();
  while (*p) {
    char *end;
    unsigned long long v = strtoull(p, &end, 10);
    if (end == p) return false;
    out.push_back(v);
    p = end;
    if (*p == ',') ++p; else if (*p) return false;
  }
  return true;
}

std::vector<std::string> Words(const std::string &s) {
  std::vector<std::string> out;
  std::size_t i = 0;
  while (i < s.size()) {
    while (i < s.size() && (s[i] == ' ' || s[i] == '\t' || s[i] == '\r')) ++i;
    std::size_t j = i;
    while (j < s.size() && s[j] != ' ' && s[j] != '\t' && s[j] != '\r') ++j;
    if (j > i) out.push_back(s.substr(i, j - i));
    i = j;
  }
  return out;
}

bool Parse(const std::string &line, Case &c) {
  std::vector<std::string> parts;
  std::size_t at = 0;
  for (;;) {
    std::size_t semi = line.find(';', at);
    if (semi == std::string::npos) { parts.push_back(line.substr(at)); break; }
    parts.push_back(line.substr(at, semi - at));
    at = semi + 1;
  }
  std::vector<std::string> head = Words(parts[0]);
  if (head.size() != 3) return false;
  c.order = strtoull(head[0].c_str(), NULL, 10);
  if (c.order < 1 || c.order > KENLM_MAX_ORDER) return false;
  if (!ParseList(head[1], c.thr) || c.thr.size() != c.order) return false;
  std::vector<uint64_t> ex;
  if (!ParseList(head[2], ex)) return false;
  c.have_excl = head[2] != "-";
  c.excl.assign(ex.begin(), ex.end());
  c.rows.clear();
  c.counts.clear();
  for (std::size_t i = 1; i < parts.size(); ++i) {
    std::vector<std::string> w = Words(parts[i]);
    if (w.empty()) continue;
    if (w.size() != c.order + 1) return false;
    std::vector<WordIndex> row;
    for (std::size_t j = 0; j < c.order; ++j) row.push_back(static_cast<WordIndex>(strtoull(w[j].c_str(), NULL, 10)));
    c.rows.push_back(row);
    c.counts.push_back(strtoull(w[c.order].c_str(), NULL, 10));
  }
  return !c.rows.empty();
}

struct Rec {
  std::vector<uint64_t> key;  // words, count, mark
  bool operator<(const Rec &o) const { return key < o.key; }
};

std::string RunCase(const Case &c, std::size_t block_entries, std::size_t block_count, bool sentinel) {
  const std::size_t order = c.order;
  std::vector<KeepCopy> outputs(order);
  std::vector<uint64_t> counts, counts_pruned;
  std::vector<Discount> discounts;
  std::vector<bool> prune_words;
  if (c.have_excl) {
    WordIndex top = 2;
    for (std::size_t i = 0; i < c.rows.size(); ++i)
      for (std::size_t j = 0; j < order; ++j) top = std::max(top, c.rows[i][j]);
    for (std::size_t i = 0; i < c.excl.size(); ++i) top = std::max(top, c.excl[i]);
    prune_words.assign(static_cast<std::size_t>(top) + 1, false);
    for (std::size_t i = 0; i < c.excl.size(); ++i) prune_words[c.excl[i]] = true;
  }
  std::size_t k = block_entries ? block_entries : c.rows.size() + 8;
  while (c.rows.size() % k == 0) ++k;
  {
    util::stream::ChainConfig config;
    config.block_count = block_count;
    util::stream::Chains chains(order);
    for (std::size_t i = 0; i < order; ++i) {
      config.entry_size = NGram<BuildingPayload>::TotalSize(i + 1);
      config.total_memory = config.entry_size * k * block_count;
      chains.push_back(config);
    }
    chains[order - 1] >> WriteInput(&c, sentinel);
    util::stream::ChainPositions for_adjust(chains);
    for (std::size_t i = 0; i < order; ++i) chains[i] >> boost::ref(outputs[i]);
    chains >> util::stream::kRecycle;
    DiscountConfig discount_config;
    discount_config.fallback.amount[0] = 0.0;
    discount_config.fallback.amount[1] = 0.5;
    discount_config.fallback.amount[2] = 1.0;
    discount_config.fallback.amount[3] = 1.5;
    discount_config.bad_action = lm::SILENT;
    AdjustCounts(c.thr, counts, counts_pruned, prune_words, discount_config, discounts).Run(for_adjust);
    chains.Wait(true);
  }
  std::string out;
  char buf[256];
  for (std::size_t n = 1; n <= order; ++n) {
    if (n > 1) out += " ; ";
    const Discount &d = discounts.at(n - 1);
    snprintf(buf, sizeof(buf), "%zu|%llu|%llu|%.6g %.6g %.6g|", n, (unsigned long long)counts.at(n - 1),
             (unsigned long long)counts_pruned.at(n - 1), d.amount[1], d.amount[2], d.amount[3]);
    out += buf;
    KeepCopy &o = outputs[n - 1];
    const std::size_t total = NGram<BuildingPayload>::TotalSize(n);
    if (o.Size() % total) { out += "TORN"; continue; }
    std::vector<Rec> recs;
    for (std::size_t at = 0; at < o.Size(); at += total) {
      NGram<BuildingPayload> g(o.Get() + at, n);
      Rec r;
      for (const WordIndex *w = g.begin(); w != g.end(); ++w) r.key.push_back(*w);
      r.key.push_back(g.Value().UnmarkedCount());
      r.key.push_back(g.Value().IsMarked() ? 1 : 0);
      recs.push_back(r);
    }
    std::sort(recs.begin(), recs.end());
    for (std::size_t i = 0; i < recs.size(); ++i) {
      if (i) out += ' ';
      for (std::size_t j = 0; j < n; ++j) {
        snprintf(buf, sizeof(buf), j ? "_%llu" : "%llu", (unsigned long long)recs[i].key[j]);
        out += buf;
      }
      snprintf(buf, sizeof(buf), ":%llu:%llu", (unsigned long long)recs[i].key[n], (unsigned long long)recs[i].key[n + 1]);
      out += buf;
    }
  }
  return out;
}

} // namespace

int main(int argc, char **argv) {
  std::size_t block_entries = 0, block_count = 2;
  bool sentinel = true;
  for (int i = 1; i < argc; ++i) {
    if (!strncmp(argv[i], "block=", 6)) block_entries = strtoull(argv[i] + 6, NULL, 10);
    else if (!strcmp(argv[i], "sentinel=0")) sentinel = false;
    else if (!strncmp(argv[i], "blocks=", 7)) block_count = std::max<std::size_t>(1, strtoull(argv[i] + 7, NULL, 10));
  }
  std::string line;
  while (std::getline(std::cin, line)) {
    if (line.empty()) continue;
    Case c;
    if (!Parse(line, c)) { puts("error parse"); fflush(stdout); continue; }
    try {
      std::string out = RunCase(c, block_entries, block_count, sentinel);
      puts(out.c_str());
    } catch (const BadDiscountException &e) {
      puts("error bad-discount");
    } catch (const util::Exception &e) {
      puts("error util-exception");
    } catch (const std::exception &e) {
      puts("error std-exception");
    }
    fflush(stdout);
  }
  return 0;
}
