// Harness for stream `bse` (C13): the real lm/interpolate/bounded_sequence_encoding.{hh,cc}.
// One line  "bse b1 .. bn | v1 .. vn"  ->  "<byte_length> <hex of the encoded bytes> <decoded values>"
// The buffer is allocated with exactly EncodedLength() bytes (heap, ASan): any access outside is reported.
#include "lm/interpolate/bounded_sequence_encoding.hh"
#include <cstdio>
#include <cstdlib>
#include <cstring>
#include <iostream>
#include <sstream>
#include <string>
#include <vector>

int main() {
  std::string line;
  while (std::getline(std::cin, line)) {
    std::istringstream in(line);
    std::string op;
    in >> op;
    if (op != "bse") { puts("bad-op"); continue; }
    std::vector<unsigned char> bounds, vals;
    std::string tok;
    bool second = false;
    while (in >> tok) {
      if (tok == "|") { second = true; continue; }
      (second ? vals : bounds).push_back((unsigned char)atoi(tok.c_str()));
    }
    if (bounds.size() != vals.size()) { puts("bad-op"); continue; }
    const unsigned char *bb = bounds.empty() ? NULL : &bounds[0];
    lm::interpolate::BoundedSequenceEncoding enc(bb, bb + bounds.size());
    size_t len = enc.EncodedLength();
    unsigned char *buf = (unsigned char*)malloc(len ? len : 1);
    memset(buf, 0xAA, len ? len : 1);
    enc.Encode(vals.empty() ? NULL : &vals[0], buf);
    std::vector<unsigned char> back(vals.size() + 1, 0);
    enc.Decode(buf, &back[0]);
    printf("%zu ", len);
    for (size_t i = 0; i < len; ++i) printf("%02x", buf[i]);
    if (!len) printf("-");
    for (size_t i = 0; i < vals.size(); ++i) printf(" %u", (unsigned)back[i]);
    printf("\n");
    free(buf);
  }
  return 0;
}
