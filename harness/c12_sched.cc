// Perturbed-schedule harness for C12 (stream `filter-sched`).
//
// Runs the REAL filter pipeline in-process: lm/filter/filter_main.cc is included verbatim (its
// `main` renamed), so Controller / FilterWorker / OutputWorker / ThreadPool / PCQueue and the
// Filter / OutputBuffer types are exactly those of bin/filter.  Compiled with -DKPU_KENLM_VERIF,
// the scheduling points of util/pcqueue.hh and util/thread_pool.hh call the hook installed here,
// which injects seeded yields and short sleeps (priority-random perturbation): every thread draws
// from its own generator; at the points where a value has been claimed but not yet published
// (after-unlock / before-post / after-wait) a stall of 50..600 us is taken with a configurable
// probability, elsewhere an occasional sched_yield.  The number of stalls per run is bounded.
//
// usage: c12_sched <seed> <stall_permille> <max_stalls> <filter args...>   (model on stdin, as bin/filter)
// exit status = that of the filter's main.
#define main kenlm_filter_main
#include "lm/filter/filter_main.cc"
#undef main

#include <atomic>
#include <sched.h>
#include <time.h>

namespace {

std::atomic<unsigned> g_thread_counter(0);
std::atomic<int> g_stalls_left(0);
uint64_t g_seed = 1;
unsigned g_permille = 150;

struct Rng {
  uint64_t s;
  bool init;
  Rng() : s(0), init(false) {}
  uint64_t Next() {
    if (!init) {
      unsigned ord = g_thread_counter.fetch_add(1);
      s = g_seed * 0x9E3779B97F4A7C15ULL + (ord + 1) * 0xBF58476D1CE4E5B9ULL;
      init = true;
    }
    s ^= s << 13; s ^= s >> 7; s ^= s << 17;
    return s;
  }
};

thread_local Rng t_rng;

void SleepMicros(unsigned us) {
  struct timespec ts;
  ts.tv_sec = 0;
  ts.tv_nsec = static_cast<long>(us) * 1000L;
  nanosleep(&ts, NULL);
}

void Hook(int id, const void *) {
#ifdef KPU_KENLM_VERIF
  using namespace util::verif;
  uint64_t r = t_rng.Next();
  bool window = (id == kProduceAfterUnlock || id == kProduceBeforePost || id == kConsumeAfterWait ||
                 id == kConsumeAfterUnlock || id == kConsumeBeforePost || id == kProduceAfterWait);
  if (window) {
    if ((r % 1000) < g_permille && g_stalls_left.fetch_sub(1) > 0) {
      SleepMicros(50 + static_cast<unsigned>((r >> 20) % 550));
      return;
    }
    if (((r >> 10) & 3) == 0) sched_yield();
  } else if (((r >> 10) & 15) == 0) {
    sched_yield();
  }
#endif
}

} // namespace

int main(int argc, char *argv[]) {
  if (argc < 7) {
    std::cerr << "usage: c12_sched seed stall_permille max_stalls <filter args>" << std::endl;
    return 2;
  }
  g_seed = strtoull(argv[1], NULL, 10);
  g_permille = static_cast<unsigned>(strtoul(argv[2], NULL, 10));
  g_stalls_left = static_cast<int>(strtol(argv[3], NULL, 10));
#ifdef KPU_KENLM_VERIF
  util::verif::PointHook() = &Hook;
#else
  std::cerr << "c12_sched: tree has no KPU_KENLM_VERIF points; running unperturbed" << std::endl;
#endif
  // argv[3] becomes the program name of the filter's main
  return kenlm_filter_main(argc - 3, argv + 3);
}
