// C16 harness: feeds util::stream::Sort<Compare,Combine> / BlockingSort through a real Chain.
// One op per stdin line (see checks/C16.py):
//   case <path> <n> <rs> <order> <kn> <comb> <mode> <cbc> <cmem> <buf> <tot> <lazy> <blocks> <detail> <out>
//   offsets <l1,l2,...>
// Per case two lines:  "M ..." (compared with the Lean driver) and "O ..." (property oracle
// computed here directly from input and output, independent of the model).
// ftruncate is interposed (this executable's definition wins over libc's for the statically
// linked kenlm_util) to *observe* the number of merge passes: Sort::Merge truncates the input
// data file and resets the input Offsets log once per pass.
#include "util/stream/sort.hh"
#include "util/stream/chain.hh"
#include "util/stream/io.hh"
#include "util/stream/stream.hh"
#include "util/file.hh"
#include "lm/common/compare.hh"
#include "lm/builder/combine_counts.hh"

#include <sys/syscall.h>
#include <unistd.h>
#include <stdint.h>
#include <cstdio>
#include <cstring>
#include <cstdlib>
#include <string>
#include <vector>
#include <map>
#include <sstream>
#include <iostream>
#include <algorithm>

// ---- observation of the temp files (no edit of /repo): this executable's definitions of
// mkstemp / ftruncate / write win over libc's for the statically linked kenlm_util.
// Sort creates its temporaries in the order data, offsets-log, [data2, offsets-log2]; every
// Offsets::Reset truncates its log; every log entry is one 16-byte write.  So the complete
// content of every Offsets log ever written ("generation") is observed.
#include <dlfcn.h>
#include <pthread.h>
static volatile long g_ftruncs = 0;
static pthread_mutex_t g_mu = PTHREAD_MUTEX_INITIALIZER;
static const int kMaxFd = 4096;
static int g_role[kMaxFd];            // 0 unknown, 1 data temp, 2 offsets log temp
static int g_gen_of_fd[kMaxFd];       // index into g_gens of the generation being written, -1 = none yet
static int g_temp_count = 0;
static bool g_observe = false;
struct Gen { std::vector<std::pair<uint64_t, uint64_t> > entries; };
static std::vector<Gen> *g_gens = NULL;
static int g_first_data_fd = -1;                // the Sort's data_ temp while BlockSorter's output is being spilled
static std::vector<uint64_t> *g_spill = NULL;   // sizes of the write() calls of WriteAndRecycle to it
// all data temps: sizes of the write() calls, one list per "generation" (creation or truncation to 0)
static int g_dgen_of_fd[kMaxFd];
static std::vector<std::vector<uint64_t> > *g_dgens = NULL;

static void ObserveReset() {
  pthread_mutex_lock(&g_mu);
  for (int i = 0; i < kMaxFd; ++i) { g_role[i] = 0; g_gen_of_fd[i] = -1; g_dgen_of_fd[i] = -1; }
  if (!g_dgens) g_dgens = new std::vector<std::vector<uint64_t> >();
  g_dgens->clear();
  g_temp_count = 0;
  if (!g_gens) g_gens = new std::vector<Gen>();
  g_gens->clear();
  if (!g_spill) g_spill = new std::vector<uint64_t>();
  g_spill->clear();
  g_first_data_fd = -1;
  g_ftruncs = 0;
  g_observe = true;
  pthread_mutex_unlock(&g_mu);
}

static int TempCommon(const char *sym, char *tmpl) {
  typedef int (*Fn)(char *);
  Fn real = (Fn)dlsym(RTLD_NEXT, sym);
  int fd = real(tmpl);
  pthread_mutex_lock(&g_mu);
  if (g_observe && fd >= 0 && fd < kMaxFd) {
    g_role[fd] = (g_temp_count % 2 == 0) ? 1 : 2;
    if (g_temp_count == 0) g_first_data_fd = fd;
    g_gen_of_fd[fd] = -1;
    g_dgen_of_fd[fd] = -1;
    ++g_temp_count;
  }
  pthread_mutex_unlock(&g_mu);
  return fd;
}
extern "C" int mkstemp(char *tmpl) { return TempCommon("mkstemp", tmpl); }
extern "C" int mkstemp64(char *tmpl) { return TempCommon("mkstemp64", tmpl); }
static int TruncCommon(int fd, off_t len) {
  __sync_fetch_and_add(&g_ftruncs, 1);
  pthread_mutex_lock(&g_mu);
  if (g_observe && fd >= 0 && fd < kMaxFd && g_role[fd] == 2 && len == 0) g_gen_of_fd[fd] = -1;
  if (g_observe && fd == g_first_data_fd) g_first_data_fd = -1;   // reused as a pass output from now on
  if (g_observe && fd >= 0 && fd < kMaxFd && g_role[fd] == 1 && len == 0) g_dgen_of_fd[fd] = -1;
  pthread_mutex_unlock(&g_mu);
  return (int)syscall(SYS_ftruncate, fd, len);
}
extern "C" int ftruncate(int fd, off_t len) { return TruncCommon(fd, len); }
extern "C" int ftruncate64(int fd, off_t len) { return TruncCommon(fd, len); }
extern "C" ssize_t write(int fd, const void *buf, size_t count) {
  if (g_observe && fd >= 0 && fd < kMaxFd && g_role[fd] == 2 && count == 16) {
    pthread_mutex_lock(&g_mu);
    if (g_gen_of_fd[fd] < 0) { g_gens->push_back(Gen()); g_gen_of_fd[fd] = (int)g_gens->size() - 1; }
    uint64_t e[2];
    memcpy(e, buf, 16);
    (*g_gens)[g_gen_of_fd[fd]].entries.push_back(std::make_pair(e[0], e[1]));
    pthread_mutex_unlock(&g_mu);
  }
  if (g_observe && fd >= 0 && fd < kMaxFd && g_role[fd] == 1) {
    pthread_mutex_lock(&g_mu);
    if (g_dgen_of_fd[fd] < 0) { g_dgens->push_back(std::vector<uint64_t>()); g_dgen_of_fd[fd] = (int)g_dgens->size() - 1; }
    (*g_dgens)[g_dgen_of_fd[fd]].push_back(count);
    pthread_mutex_unlock(&g_mu);
  }
  if (g_observe && fd >= 0 && fd == g_first_data_fd) {
    pthread_mutex_lock(&g_mu);
    g_spill->push_back(count);
    pthread_mutex_unlock(&g_mu);
  }
  return (ssize_t)syscall(SYS_write, fd, buf, count);
}

using namespace util::stream;

static std::string TmpDir() {
  const char *d = getenv("C16_TMPDIR");
  return std::string(d ? d : "/var/tmp");
}

static uint64_t ReadLE(const uint8_t *p, unsigned w) {
  uint64_t v = 0;
  for (unsigned i = 0; i < w; ++i) v |= (uint64_t)p[i] << (8 * i);
  return v;
}

struct IntLess : public std::binary_function<const void *, const void *, bool> {
  explicit IntLess(unsigned w) : w_(w) {}
  bool operator()(const void *a, const void *b) const {
    return ReadLE(static_cast<const uint8_t*>(a), w_) < ReadLE(static_cast<const uint8_t*>(b), w_);
  }
  unsigned w_;
};
struct BytesLess : public std::binary_function<const void *, const void *, bool> {
  explicit BytesLess(std::size_t n) : n_(n) {}
  bool operator()(const void *a, const void *b) const { return memcmp(a, b, n_) < 0; }
  std::size_t n_;
};
// counting combiner usable with every order: same key bytes => add the uint64 after the key
struct GenericCount {
  explicit GenericCount(std::size_t keybytes) : kb_(keybytes) {}
  template <class Compare> bool operator()(void *into, const void *opt, const Compare &) const {
    if (memcmp(into, opt, kb_)) return false;
    uint64_t a, b;
    memcpy(&a, static_cast<uint8_t*>(into) + kb_, 8);
    memcpy(&b, static_cast<const uint8_t*>(opt) + kb_, 8);
    a += b;
    memcpy(static_cast<uint8_t*>(into) + kb_, &a, 8);
    return true;
  }
  std::size_t kb_;
};

// Writes the records into chain blocks holding exactly the requested record counts.
struct Putter {
  Putter(const std::vector<uint8_t> *data, const std::vector<uint64_t> *counts, std::size_t rs)
    : data_(data), counts_(counts), rs_(rs) {}
  void Run(const ChainPosition &position) {
    Link link(position);
    std::size_t off = 0;
    for (std::size_t i = 0; i < counts_->size(); ++i) {
      std::size_t bytes = (*counts_)[i] * rs_;
      if (bytes > position.GetChain().BlockSize()) { std::cerr << "putter: block too big" << std::endl; abort(); }
      if (bytes) memcpy(link->Get(), &(*data_)[off], bytes);
      off += bytes;
      link->SetValidSize(bytes);
      ++link;
    }
    link.Poison();
  }
  const std::vector<uint8_t> *data_;
  const std::vector<uint64_t> *counts_;
  std::size_t rs_;
};

struct Case {
  std::string path, order, comb, mode, lazy, blocks, out;
  uint64_t n, rs, kn, cbc, cmem, buf, tot;
  int detail;
  std::size_t keybytes;
};

static const uint64_t kFnvOff = 14695981039346656037ULL, kFnvPrime = 1099511628211ULL;
static inline uint64_t Fnv(uint64_t h, const uint8_t *p, std::size_t n) {
  for (std::size_t i = 0; i < n; ++i) { h ^= p[i]; h *= kFnvPrime; }
  return h;
}

static std::string g_oblocks;
// Read the sorted output block by block (a Link, not a Stream) to observe the chain block boundaries.
static void Drain(Chain &chain, std::vector<uint8_t> &out) {
  std::vector<uint64_t> sizes;
  {
    Link l;
    chain >> l >> kRecycle;
    for (; l; ++l) {
      sizes.push_back(l->ValidSize());
      const uint8_t *p = static_cast<const uint8_t*>(l->Get());
      out.insert(out.end(), p, p + l->ValidSize());
    }
  }
  std::ostringstream o;
  for (std::size_t i = 0; i < sizes.size();) {
    std::size_t j = i;
    while (j < sizes.size() && sizes[j] == sizes[i]) ++j;
    if (i) o << ",";
    o << sizes[i] << "*" << (j - i);
    i = j;
  }
  g_oblocks = sizes.empty() ? "none" : o.str();
}

template <class Compare, class Combine> static void RunSort(const Case &c, const Compare &compare, const Combine &combine,
    const std::vector<uint8_t> &data, const std::vector<uint64_t> &counts, std::vector<uint8_t> &out,
    std::string &mret, std::string &lazy_used) {
  SortConfig sc;
  sc.temp_prefix = TmpDir() + "/c16tmp_";
  sc.buffer_size = c.buf;
  sc.total_memory = c.tot;
  ChainConfig cc(c.rs, c.cbc, c.cmem);
  if (c.mode == "blocking") {
    Chain chain(cc);
    chain >> Putter(&data, &counts, c.rs);
    BlockingSort<Compare, Combine>(chain, sc, compare, combine);
    Drain(chain, out);
    mret = "-";
    lazy_used = "-";
  } else if (c.mode == "steal") {
    // Sort::StealCompleted: merge all the way (Merge(0)) and hand over the data file
    Chain chain(cc);
    chain >> Putter(&data, &counts, c.rs);
    Sort<Compare, Combine> sorter(chain, sc, compare, combine);
    chain.Wait(true);
    // as lmplz does (lm/builder/pipeline.cc:93-98): read the stolen file through a chain with PRead
    util::scoped_fd fd(sorter.StealCompleted());
    Chain outc(ChainConfig(c.rs, c.cbc == 1 ? 2 : c.cbc, std::max<uint64_t>(c.cmem, c.rs * (c.cbc == 1 ? 2 : c.cbc))));
    outc >> PRead(fd.release(), true);
    Drain(outc, out);
    mret = "0";
    lazy_used = "0";
  } else {
    Chain chain(cc);
    chain >> Putter(&data, &counts, c.rs);
    Sort<Compare, Combine> sorter(chain, sc, compare, combine);
    chain.Wait(true);
    std::size_t lazy = (c.lazy == "default") ? sorter.DefaultLazy() : (std::size_t)strtoull(c.lazy.c_str(), NULL, 10);
    std::size_t r = sorter.Merge(lazy);
    { std::ostringstream s; s << r; mret = s.str(); }
    { std::ostringstream s; s << lazy; lazy_used = s.str(); }
    if (c.mode == "retout") lazy = r;   // lmplz: Output(chain, value returned by Merge)
    // output chain: same entry size, its own block configuration
    Chain outc(ChainConfig(c.rs, c.cbc == 1 ? 2 : c.cbc, std::max<uint64_t>(c.cmem, c.rs * (c.cbc == 1 ? 2 : c.cbc))));
    sorter.Output(outc, lazy);
    Drain(outc, out);
  }
}

struct RealCount {   // the production combiner lm::builder::CombineCounts (requires SuffixOrder, rs = 4*kn + 8)
  bool operator()(void *a, const void *b, const lm::SuffixOrder &cmp) const { return lm::builder::CombineCounts()(a, b, cmp); }
};

template <class Compare, class Combine> static void RunAndReport(const Case &c, const Compare &compare, const Combine &combine,
    const std::vector<uint8_t> &data, const std::vector<uint64_t> &counts) {
  std::vector<uint8_t> out;
  std::string mret, lazy_used;
  ObserveReset();
  try {
    RunSort<Compare, Combine>(c, compare, combine, data, counts, out, mret, lazy_used);
  } catch (const BadSortConfig &e) {
    std::cout << "M error=badconfig\nO error" << std::endl;
    return;
  }
  long ft = g_ftruncs;
  // ---- M line
  const std::size_t rs = c.rs, kb = c.keybytes;
  uint64_t n_out = out.size() / rs, kh = kFnvOff, sq = kFnvOff, ms = 0;
  for (uint64_t i = 0; i < n_out; ++i) {
    const uint8_t *p = &out[i * rs];
    kh = Fnv(kh, p, kb);
    sq = Fnv(sq, p, rs);
    ms += Fnv(kFnvOff, p, rs);
  }
  std::string passes;
  { std::ostringstream s;
    if (ft == 1) s << 0; else if (ft >= 4 && (ft - 2) % 2 == 0) s << (ft - 2) / 2; else s << "ft" << ft;
    passes = s.str(); }
  // Offsets logs observed: count, FNV over all (length, run) entries with a separator per log, and the
  // first entries for diagnostics
  uint64_t lh = kFnvOff;
  std::ostringstream lshow;
  pthread_mutex_lock(&g_mu);
  g_observe = false;
  std::size_t ngen = g_gens->size();
  for (std::size_t g = 0; g < ngen; ++g) {
    const Gen &G = (*g_gens)[g];
    for (std::size_t i = 0; i < G.entries.size(); ++i) {
      uint64_t e[2] = { G.entries[i].first, G.entries[i].second };
      lh = Fnv(lh, reinterpret_cast<const uint8_t*>(e), 16);
      if (g < 4 && i < 5) lshow << (i ? "," : "") << e[0] << "*" << e[1];
    }
    uint8_t sep = 0xAA;
    lh = Fnv(lh, &sep, 1);
    if (g < 4) lshow << ";";
  }
  pthread_mutex_unlock(&g_mu);
  std::cout << "M n_out=" << n_out << " keyhash=" << kh << " mset=" << ms << " seq=" << sq
            << " passes=" << passes << " mret=" << mret << " lazy=" << lazy_used
            << " logs=" << ngen << ":" << lh;
  {
    uint64_t sh = kFnvOff;
    for (std::size_t i = 0; i < g_spill->size(); ++i) { uint64_t v = (*g_spill)[i]; sh = Fnv(sh, reinterpret_cast<const uint8_t*>(&v), 8); }
    std::cout << " spill=" << g_spill->size() << ":" << sh;
    // every data file ever written (spill + one per pass): the sizes of all write() calls
    uint64_t dh = kFnvOff;
    for (std::size_t g = 0; g < g_dgens->size(); ++g) {
      for (std::size_t i = 0; i < (*g_dgens)[g].size(); ++i) { uint64_t v = (*g_dgens)[g][i]; dh = Fnv(dh, reinterpret_cast<const uint8_t*>(&v), 8); }
      uint8_t sep = 0xAA;
      dh = Fnv(dh, &sep, 1);
    }
    std::cout << " dwrites=" << g_dgens->size() << ":" << dh;
  }
  // invariant of the output blocks, checked here directly: every ValidSize is a multiple of the entry size
  std::cout << " oblocks=" << g_oblocks << " logshow=" << lshow.str() << std::endl;
  // ---- O line: the property, computed directly
  bool sorted_ok = true;
  for (uint64_t i = 1; i < n_out; ++i) if (compare(&out[i * rs], &out[(i - 1) * rs])) { sorted_ok = false; break; }
  bool mset_ok = true, totals_ok = true, nodup_out = true, blocks_nodup = true;
  if (c.comb == "none") {
    // multiset equality: sort both as byte strings
    std::vector<std::string> a, b;
    a.reserve(c.n); b.reserve(n_out);
    for (uint64_t i = 0; i < c.n; ++i) a.push_back(std::string((const char*)&data[i * rs], rs));
    for (uint64_t i = 0; i < n_out; ++i) b.push_back(std::string((const char*)&out[i * rs], rs));
    std::sort(a.begin(), a.end()); std::sort(b.begin(), b.end());
    mset_ok = (a == b);
  } else {
    std::map<std::string, uint64_t> ti, to;
    for (uint64_t i = 0; i < c.n; ++i) ti[std::string((const char*)&data[i * rs], kb)] += ReadLE(&data[i * rs + kb], 8);
    for (uint64_t i = 0; i < n_out; ++i) {
      std::string k((const char*)&out[i * rs], kb);
      if (to.count(k)) nodup_out = false;
      to[k] += ReadLE(&out[i * rs + kb], 8);
    }
    totals_ok = (ti == to);
    // hypothesis of the duplicate-free clause: every input block duplicate-free
    uint64_t off = 0;
    for (std::size_t bi = 0; bi < counts.size() && blocks_nodup; ++bi) {
      std::vector<std::string> ks;
      for (uint64_t i = 0; i < counts[bi]; ++i) ks.push_back(std::string((const char*)&data[(off + i) * rs], kb));
      std::sort(ks.begin(), ks.end());
      if (std::adjacent_find(ks.begin(), ks.end()) != ks.end()) blocks_nodup = false;
      off += counts[bi];
    }
  }
  std::cout << "O sorted=" << sorted_ok << " mset=" << mset_ok << " totals=" << totals_ok
            << " nodup_out=" << nodup_out << " blocks_nodup=" << blocks_nodup << " ft=" << ft << std::endl;
  if (c.out != "-") {
    FILE *f = fopen(c.out.c_str(), "wb");
    if (f) { if (!out.empty()) fwrite(&out[0], 1, out.size(), f); fclose(f); }
  }
}

template <class Compare> static void RunWithCompare(const Case &c, const Compare &compare,
    const std::vector<uint8_t> &data, const std::vector<uint64_t> &counts) {
  if (c.comb == "none") RunAndReport<Compare, NeverCombine>(c, compare, NeverCombine(), data, counts);
  else RunAndReport<Compare, GenericCount>(c, compare, GenericCount(c.keybytes), data, counts);
}

static void RunCase(std::istringstream &in) {
  Case c;
  in >> c.path >> c.n >> c.rs >> c.order >> c.kn >> c.comb >> c.mode >> c.cbc >> c.cmem >> c.buf >> c.tot >> c.lazy >> c.blocks >> c.detail >> c.out;
  if (!in) { std::cout << "M bad-op\nO bad-op" << std::endl; return; }
  std::vector<uint8_t> data(c.n * c.rs);
  {
    FILE *f = fopen(c.path.c_str(), "rb");
    if (!f || (data.size() && fread(&data[0], 1, data.size(), f) != data.size())) { std::cout << "M bad-file-size\nO bad" << std::endl; if (f) fclose(f); return; }
    fclose(f);
  }
  std::size_t block_size = c.cmem / (c.cbc * c.rs) * c.rs;
  std::vector<uint64_t> counts;
  if (c.blocks == "F") {
    uint64_t cap = block_size / c.rs;
    for (uint64_t left = c.n; left; ) { uint64_t t = std::min(cap, left); counts.push_back(t); left -= t; }
  } else {
    std::stringstream ss(c.blocks); std::string tok;
    while (std::getline(ss, tok, ',')) if (!tok.empty()) counts.push_back(strtoull(tok.c_str(), NULL, 10));
  }
  if (c.order == "int") c.keybytes = c.kn;
  else if (c.order == "bytes") c.keybytes = c.rs;
  else c.keybytes = 4 * c.kn;
  if (c.order == "int") RunWithCompare(c, IntLess(c.kn), data, counts);
  else if (c.order == "bytes") RunWithCompare(c, BytesLess(c.rs), data, counts);
  else if (c.order == "prefix") RunWithCompare(c, lm::PrefixOrder(c.kn), data, counts);
  else if (c.order == "context") RunWithCompare(c, lm::ContextOrder(c.kn), data, counts);
  else if (c.order == "suffix") {
    if (c.comb == "real") RunAndReport<lm::SuffixOrder, RealCount>(c, lm::SuffixOrder(c.kn), RealCount(), data, counts);
    else RunWithCompare(c, lm::SuffixOrder(c.kn), data, counts);
  } else std::cout << "M bad-op\nO bad-op" << std::endl;
}

// Drive the real Offsets class on a temp file.
static void RunOffsets(const std::string &arg) {
  util::scoped_fd fd(util::MakeTemp(TmpDir() + "/c16off_"));
  Offsets o(fd.get());
  std::stringstream ss(arg); std::string tok;
  while (std::getline(ss, tok, ',')) if (!tok.empty()) o.Append(strtoull(tok.c_str(), NULL, 10));
  o.FinishedAppending();
  std::ostringstream sizes, offs;
  uint64_t remaining = o.RemainingBlocks();
  bool first = true;
  while (o.RemainingBlocks()) {
    uint64_t off = o.TotalOffset();
    uint64_t peek = o.PeekSize();
    uint64_t s = o.NextSize();
    if (peek != s) { std::cout << "peek-mismatch" << std::endl; return; }
    if (!first) { sizes << ","; offs << ","; }
    first = false;
    sizes << s; offs << off;
  }
  std::cout << "remaining=" << remaining << " sizes=" << sizes.str() << " offsets=" << offs.str() << " total=" << o.TotalOffset() << std::endl;
}

static std::vector<uint8_t> FromHex(const std::string &h) {
  std::vector<uint8_t> v;
  for (std::size_t i = 0; i + 1 < h.size(); i += 2) v.push_back((uint8_t)strtoul(h.substr(i, 2).c_str(), NULL, 16));
  return v;
}
static std::string ToHex(const std::vector<uint8_t> &v) {
  static const char *d = "0123456789abcdef";
  std::string o;
  for (std::size_t i = 0; i < v.size(); ++i) { o.push_back(d[v[i] >> 4]); o.push_back(d[v[i] & 15]); }
  return o;
}
// sizedswap <size> <hex buffer> <i> <j> : the real util::swap(SizedProxy, SizedProxy) on records i and j
static void RunSizedSwap(std::istringstream &in) {
  std::size_t size, i, j; std::string hex;
  in >> size >> hex >> i >> j;
  std::vector<uint8_t> buf = FromHex(hex);
  if (!in || !size || (i + 1) * size > buf.size() || (j + 1) * size > buf.size()) { std::cout << "bad-op" << std::endl; return; }
  util::FreePool pool(size);
  util::swap(util::SizedProxy(&buf[i * size], pool), util::SizedProxy(&buf[j * size], pool));
  std::cout << ToHex(buf) << std::endl;
}
// sizedsort <size> <hex buffer> : the real SizedSort with memcmp order on whole records
static void RunSizedSort(std::istringstream &in) {
  std::size_t size; std::string hex;
  in >> size >> hex;
  if (hex == "-") hex = "";
  std::vector<uint8_t> buf = FromHex(hex);
  if (!in || !size || buf.size() % size) { std::cout << "bad-op" << std::endl; return; }
  uint8_t *b = buf.empty() ? NULL : &buf[0];
  if (b) util::SizedSort(b, b + buf.size(), size, BytesLess(size));
  std::cout << (buf.empty() ? "-" : ToHex(buf)) << std::endl;
}

int main() {
  std::string line;
  while (std::getline(std::cin, line)) {
    std::istringstream in(line);
    std::string op;
    in >> op;
    if (op == "case") RunCase(in);
    else if (op == "offsets") { std::string a; in >> a; RunOffsets(a); }
    else if (op == "sizedswap") RunSizedSwap(in);
    else if (op == "sizedsort") RunSizedSort(in);
    else std::cout << "bad-op" << std::endl;
  }
  return 0;
}
