// Harness for stream `vocab` (C20): the REAL lm::ngram::GrowableVocab, ProbingVocabulary and
// SortedVocabulary (lm/vocab.hh, lm/vocab.cc; linked against the kenlm library).  One canonical
// result line per operation line, mirrored by lean/Driver/C20.lean (which works on the 64-bit
// hashes this harness reports in the probe pass: MurmurHash itself is not modelled).
#include "lm/vocab.hh"
#include "lm/config.hh"
#include "lm/weights.hh"
#include "util/murmur_hash.hh"
#include <cstdio>
#include <cstdlib>
#include <cstring>
#include <iostream>
#include <sstream>
#include <string>
#include <vector>

static int hexv(char c) { return c <= '9' ? c - '0' : (c | 32) - 'a' + 10; }
static std::string Unhex(const std::string &h) {
  std::string r;
  if (h == "-") return r;   // the empty word
  for (size_t i = 0; i + 1 < h.size(); i += 2) r.push_back((char)(hexv(h[i]) * 16 + hexv(h[i + 1])));
  return r;
}
static uint64_t H(const std::string &w) { return lm::ngram::detail::HashForVocab(w.data(), w.size()); }

typedef lm::ngram::GrowableVocab<lm::ngram::NoOpUniqueWords> GVocab;

int main() {
  std::string line;
  GVocab *g = NULL;
  lm::ngram::ProbingVocabulary *pv = NULL; void *pvmem = NULL;
  lm::ngram::SortedVocabulary *sv = NULL; void *svmem = NULL; size_t sv_n = 0;
  lm::ngram::Config config;
  while (std::getline(std::cin, line)) {
    std::istringstream in(line);
    std::string op; in >> op;
    try {
      if ((op[0] == 'g' && op != "gnew" && !g) || (op[0] == 'p' && op != "pvnew" && op != "pvsize" && !pv) ||
          (op[0] == 's' && op != "svnew" && !sv)) { puts("no-table"); continue; }
      if (op == "hash") {                       // probe pass
        std::string hw; in >> hw; std::string w = Unhex(hw);
        // GrowableVocab hashes with MurmurHashNative, Index() and the other vocabularies with HashForVocab: same function
        uint64_t a = H(w), b = util::MurmurHashNative(w.data(), w.size());
        if (a != b) puts("hash-functions-differ"); else printf("%llu\n", (unsigned long long)a);
      } else if (op == "pvsize") {              // probe pass: bucket count of ProbingVocabulary::Size(entries, multiplier)
        uint64_t entries; uint32_t mb; in >> entries >> mb;
        float mult; memcpy(&mult, &mb, 4);
        uint64_t sz = lm::ngram::ProbingVocabulary::Size(entries, mult);
        printf("%llu\n", (unsigned long long)((sz - 8) / sizeof(lm::ngram::ProbingVocabularyEntry)));
      } else if (op == "vconst") {
        uint64_t a, b, c, d; in >> a >> b >> c >> d;
        puts(a == H("<unk>") && b == H("<UNK>") && c == H("<s>") && d == H("</s>") ? "ok" : "hash-mismatch");
      } else if (op == "gnew") {
        uint64_t init; in >> init;
        delete g; g = new GVocab((lm::WordIndex)init, lm::ngram::NoOpUniqueWords());
        printf("ok %u\n", (unsigned)g->Size());
      } else if (op == "gfoi" || op == "gidx") {
        std::string hw; uint64_t h; in >> hw >> h; std::string w = Unhex(hw);
        if (h != H(w)) { puts("hash-mismatch"); continue; }
        lm::WordIndex id = op == "gfoi" ? g->FindOrInsert(w) : g->Index(w);
        printf("%u\n", (unsigned)id);
      } else if (op == "gsize") {
        printf("%u\n", (unsigned)g->Size());
      } else if (op == "pvnew") {
        uint64_t entries; uint32_t mb; in >> entries >> mb;
        float mult; memcpy(&mult, &mb, 4);
        uint64_t sz = lm::ngram::ProbingVocabulary::Size(entries, mult);
        delete pv; free(pvmem);
        pvmem = calloc(sz, 1);
        pv = new lm::ngram::ProbingVocabulary();
        pv->SetupMemory(pvmem, sz);
        printf("ok %llu\n", (unsigned long long)((sz - 8) / sizeof(lm::ngram::ProbingVocabularyEntry)));
      } else if (op == "pvins" || op == "pvidx") {
        std::string hw; uint64_t h; in >> hw >> h; std::string w = Unhex(hw);
        if (h != H(w)) { puts("hash-mismatch"); continue; }
        lm::WordIndex id = op == "pvins" ? pv->Insert(w) : pv->Index(w);
        printf("%u\n", (unsigned)id);
      } else if (op == "pvfin") {
        pv->FinishedLoading((lm::ProbBackoff*)NULL);
        printf("%u %d %u %u\n", (unsigned)pv->Bound(), (int)pv->SawUnk(), (unsigned)pv->BeginSentence(), (unsigned)pv->EndSentence());
      } else if (op == "svnew") {
        uint64_t entries; in >> entries;
        delete sv; free(svmem);
        size_t sz = lm::ngram::SortedVocabulary::Size(entries, config);
        svmem = calloc(sz, 1);
        sv = new lm::ngram::SortedVocabulary();
        sv->SetupMemory(svmem, sz, entries, config);
        sv_n = 0;
        puts("ok");
      } else if (op == "svins") {
        std::string hw; uint64_t h; in >> hw >> h; std::string w = Unhex(hw);
        if (h != H(w)) { puts("hash-mismatch"); continue; }
        lm::WordIndex id = sv->Insert(w);
        if (id) ++sv_n;
        printf("%u\n", (unsigned)id);
      } else if (op == "svfin") {
        // unigram weights tagged with the provisional ids, so the permutation is visible
        std::vector<lm::ProbBackoff> reorder(sv_n + 1);
        for (size_t i = 0; i <= sv_n; ++i) { reorder[i].prob = (float)i; reorder[i].backoff = -(float)i; }
        sv->FinishedLoading(&reorder[0]);
        printf("%u %d %u %u |", (unsigned)sv->Bound(), (int)sv->SawUnk(), (unsigned)sv->BeginSentence(), (unsigned)sv->EndSentence());
        for (size_t i = 0; i <= sv_n; ++i) {
          if (reorder[i].backoff != -reorder[i].prob) printf(" torn");
          printf(" %d", (int)reorder[i].prob);
        }
        puts("");
      } else if (op == "svidx") {
        std::string hw; uint64_t h; in >> hw >> h; std::string w = Unhex(hw);
        if (h != H(w)) { puts("hash-mismatch"); continue; }
        printf("%u\n", (unsigned)sv->Index(w));
      } else {
        puts("bad-op");
      }
    } catch (const util::ProbingSizeException &) { puts("full");
    } catch (const lm::VocabLoadException &) { puts("too-many");
    } catch (const std::exception &e) { printf("exception %s\n", typeid(e).name()); }
  }
  delete g; delete pv; free(pvmem); delete sv; free(svmem);
  return 0;
}
