// Harness for stream `crash` (C09): feeds each crash image to the REAL loaders
// (lm::ngram::RecognizeBinary, lm::ngram::LoadVirtual with the default Config, and LoadVirtual with an
// EnumerateVocab collector and the READ load method) and, when an image loads, scores a query file
// through the virtual interface, printing probabilities as float bits.
//
//   usage: c09 <queries.txt> < list of image paths (one per line)
//   output per image:  <path> default=<reject:CLASS | accept:HASH> enum=<reject:CLASS | accept:HASH:VOCABHASH>
// HASH is over (word index, prob bits, ngram_length) of every query word, so equal hashes <=> identical answers.
#include "lm/model.hh"
#include "lm/binary_format.hh"
#include "lm/enumerate_vocab.hh"
#include "lm/virtual_interface.hh"
#include "lm/lm_exception.hh"
#include "util/exception.hh"

#include <cstdio>
#include <cstring>
#include <fstream>
#include <iostream>
#include <sstream>
#include <string>
#include <vector>
#include <stdint.h>
#include <signal.h>
#include <sys/types.h>
#include <sys/wait.h>
#include <unistd.h>

namespace {
uint64_t Mix(uint64_t h, uint64_t v) { h ^= v + 0x9e3779b97f4a7c15ULL + (h << 6) + (h >> 2); return h; }

struct Collect : public lm::EnumerateVocab {
  uint64_t hash; uint64_t count;
  Collect() : hash(1469598103934665603ULL), count(0) {}
  void Add(lm::WordIndex index, const StringPiece &str) {
    hash = Mix(hash, index);
    for (size_t i = 0; i < str.size(); ++i) hash = Mix(hash, (unsigned char)str.data()[i]);
    hash = Mix(hash, 0xFFFF);
    ++count;
  }
};

std::vector<std::vector<std::string> > queries;

uint64_t Score(const lm::base::Model &m) {
  uint64_t h = 1469598103934665603ULL;
  std::vector<char> s1(m.StateSize()), s2(m.StateSize());
  for (size_t q = 0; q < queries.size(); ++q) {
    m.BeginSentenceWrite(&s1[0]);
    for (size_t w = 0; w <= queries[q].size(); ++w) {
      lm::WordIndex idx = w < queries[q].size() ? m.BaseVocabulary().Index(queries[q][w]) : m.BaseVocabulary().EndSentence();
      lm::FullScoreReturn r = m.BaseFullScore(&s1[0], idx, &s2[0]);
      uint32_t bits; std::memcpy(&bits, &r.prob, 4);
      h = Mix(h, idx); h = Mix(h, bits); h = Mix(h, r.ngram_length);
      s1.swap(s2);
    }
  }
  return h;
}

std::string Classify(const std::exception &e) {
  if (dynamic_cast<const lm::FormatLoadException*>(&e)) return "format";
  if (dynamic_cast<const lm::ConfigException*>(&e)) return "config";
  if (dynamic_cast<const util::EndOfFileException*>(&e)) return "eof";
  if (dynamic_cast<const util::ErrnoException*>(&e)) return "errno";
  if (dynamic_cast<const util::Exception*>(&e)) return "util";
  return "std";
}
} // namespace

static void OneImage(const std::string &path) {
    std::string r1, r2;
    try {
      lm::ngram::Config config;
      config.messages = NULL;
      lm::base::Model *m = lm::ngram::LoadVirtual(path.c_str(), config);
      std::ostringstream o; o << "accept:" << std::hex << Score(*m);
      r1 = o.str();
      delete m;
    } catch (const std::exception &e) { r1 = "reject:" + Classify(e); }
    try {
      lm::ngram::Config config;
      config.messages = NULL;
      Collect c;
      config.enumerate_vocab = &c;
      config.load_method = util::READ;
      lm::base::Model *m = lm::ngram::LoadVirtual(path.c_str(), config);
      std::ostringstream o; o << "accept:" << std::hex << Score(*m) << ":" << c.hash << ":" << std::dec << c.count;
      r2 = o.str();
      delete m;
    } catch (const std::exception &e) { r2 = "reject:" + Classify(e); }
    std::printf("%s default=%s enum=%s\n", path.c_str(), r1.c_str(), r2.c_str());
    std::fflush(stdout);
}

int main(int argc, char **argv) {
  if (argc < 2) return 2;
  {
    std::ifstream q(argv[1]);
    std::string line;
    while (std::getline(q, line)) {
      std::istringstream in(line); std::string w; std::vector<std::string> ws;
      while (in >> w) ws.push_back(w);
      queries.push_back(ws);
    }
  }
  std::string path;
  while (std::getline(std::cin, path)) {
    if (path.empty()) continue;
    // one child per image: a loader that hangs or crashes on a crash image must not take the harness down
    std::fflush(stdout);
    pid_t pid = fork();
    if (pid == 0) {
      alarm(10);
      OneImage(path);
      std::fflush(stdout);
      _exit(0);
    }
    int status = 0, waited = 0;
    for (;;) {
      pid_t r = waitpid(pid, &status, WNOHANG);
      if (r == pid) break;
      usleep(2000);
      if (++waited > 2500) { kill(pid, SIGKILL); waitpid(pid, &status, 0); break; }
    }
    if (WIFSIGNALED(status)) {
      int sig = WTERMSIG(status);
      if (sig == SIGALRM || sig == SIGKILL) std::printf("%s default=hang enum=hang\n", path.c_str());
      else std::printf("%s default=crash:%d enum=crash:%d\n", path.c_str(), sig, sig);
    }
    std::fflush(stdout);
  }
  return 0;
}
