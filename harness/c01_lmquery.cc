// Harness for stream `lm-query` (C01/C02/C03): loads an ARPA (or binary) file into the six model
// classes of lm/model.hh and answers the same op lines as lean/Driver/C01.lean.
//   arpa <path> [mult=<f>] [abits=<n>] [pbits=<n>] [bbits=<n>] [mem=<bytes>] [classes=PRTAQB]
//   bin <path> <class letter>            load a binary file into exactly that class
//   q B|N w1 w2 ...                      walk; per word and per class:
//        word  F:probbits len indep olen owords obackoffbits  G:(FullScoreForgotState, same 6)  S:(GetState: olen owords obo)
// One output line per op; class segments separated by " ## ", word records by " | ".
#include <cstdio>
#include <cstdlib>
#include <cstring>
#include <iostream>
#include <sstream>
#include <string>
#include <vector>
#include <map>
#include <algorithm>
#include <limits>
#include <memory>
#include <stdexcept>
// H3 of DESIGN §7 without a source hook: the harness (only) may look at the private search structure
#define private public
#define protected public
#include "lm/model.hh"
#include "lm/enumerate_vocab.hh"
#include "lm/lm_exception.hh"
#include "util/exception.hh"
#include "util/probing_hash_table.hh"
#include "util/file_piece.hh"
#include <cstdio>
#include <cstdlib>
#include <cstring>
#include <iostream>
#include <sstream>
#include <string>
#include <vector>

using namespace lm::ngram;

static uint32_t fbits(float f) { uint32_t u; memcpy(&u, &f, 4); return u; }

struct Names : public lm::EnumerateVocab {
  std::vector<std::string> names;
  void Add(lm::WordIndex index, const StringPiece &str) {
    if (names.size() <= index) names.resize(index + 1);
    names[index] = std::string(str.data(), str.size());
  }
};

struct Opts {
  float mult; int abits, pbits, bbits; size_t mem; std::string classes;
  Opts() : mult(1.5), abits(-1), pbits(-1), bbits(-1), mem(0), classes("PRTAQB") {}
};

struct AnyModel {
  virtual ~AnyModel() {}
  virtual std::string Walk(const std::string &start, const std::vector<std::string> &ws) = 0;
  virtual std::string Enum(const std::vector<std::string> &ws) = 0;
};

// enumerate one entry of a HashedSearch through its lookups: raw prob bits (sign = "does not extend left"),
// raw backoff bits (+0/-0 kept), rest bits
template <class Search> std::string EnumHashed(const Search &search, const std::vector<lm::WordIndex> &rev, unsigned order, bool rest) {
  typename Search::Node node;
  bool indep; uint64_t ext;
  char buf[96];
  typename Search::UnigramPointer uni(search.LookupUnigram(rev[0], node, indep, ext));
  if (rev.size() == 1) {
    snprintf(buf, sizeof buf, "1 %08x %08x %08x", fbits(uni.to_->prob), fbits(uni.to_->backoff), fbits(uni.Rest()));
    return buf;
  }
  for (size_t i = 1; i < rev.size(); ++i) {
    if (i + 1 == order) {
      typename Search::LongestPointer l(search.LookupLongest(rev[i], node));
      if (i + 1 != rev.size() || !l.Found()) return "0";
      snprintf(buf, sizeof buf, "1 %08x - -", fbits(*l.to_));
      return buf;
    }
    typename Search::MiddlePointer m(search.LookupMiddle(i - 1, rev[i], node, indep, ext));
    if (!m.Found()) return "0";
    if (i + 1 == rev.size()) {
      snprintf(buf, sizeof buf, "1 %08x %08x %08x", fbits(m.to_->prob), fbits(m.to_->backoff), fbits(m.Rest()));
      return buf;
    }
  }
  return "0";
}
template <class M> std::string EnumModel(const M &, const std::vector<lm::WordIndex> &) { return "-"; }
inline std::string EnumModel(const ProbingModel &m, const std::vector<lm::WordIndex> &rev) { return EnumHashed(m.search_, rev, m.Order(), false); }
inline std::string EnumModel(const RestProbingModel &m, const std::vector<lm::WordIndex> &rev) { return EnumHashed(m.search_, rev, m.Order(), true); }

template <class M> struct Holder : public AnyModel {
  Names names;
  M *m;
  Holder(const char *file, const Opts &o) : m(NULL) {
    Config config;
    config.messages = NULL; config.arpa_complain = Config::NONE; config.show_progress = false;
    config.unknown_missing = lm::SILENT; config.sentence_marker_missing = lm::SILENT;
    config.positive_log_probability = lm::SILENT;
    config.probing_multiplier = o.mult;
    if (o.abits >= 0) config.pointer_bhiksha_bits = o.abits;
    if (o.pbits >= 0) config.prob_bits = o.pbits;
    if (o.bbits >= 0) config.backoff_bits = o.bbits;
    if (o.mem) config.building_memory = o.mem;
    config.enumerate_vocab = &names;
    m = new M(file, config);
  }
  ~Holder() { delete m; }
  std::string StateStr(const State &s) {
    std::ostringstream o;
    o << (unsigned)s.length << ' ';
    if (!s.length) o << "- -";
    else {
      for (unsigned i = 0; i < s.length; ++i) o << (i ? "," : "") << (s.words[i] < names.names.size() ? names.names[s.words[i]] : std::string("?"));
      o << ' ';
      char buf[16];
      for (unsigned i = 0; i < s.length; ++i) { snprintf(buf, sizeof buf, "%08x", fbits(s.backoff[i])); o << (i ? "," : "") << buf; }
    }
    return o.str();
  }
  std::string RetStr(const lm::FullScoreReturn &r, const State &out) {
    char buf[64];
    snprintf(buf, sizeof buf, "%08x %u %d ", fbits(r.prob), (unsigned)r.ngram_length, (int)r.independent_left);
    return std::string(buf) + StateStr(out);
  }
  std::string Enum(const std::vector<std::string> &ws) {
    std::vector<lm::WordIndex> rev;
    for (size_t i = ws.size(); i-- > 0; ) rev.push_back(m->GetVocabulary().Index(ws[i]));
    return EnumModel(*m, rev);
  }
  std::string Walk(const std::string &start, const std::vector<std::string> &ws) {
    State s = (start == "B") ? m->BeginSentenceState() : m->NullContextState();
    std::vector<lm::WordIndex> hist;   // forward order
    if (start == "B") hist.push_back(m->GetVocabulary().BeginSentence());
    std::ostringstream o;
    for (size_t i = 0; i < ws.size(); ++i) {
      lm::WordIndex id = m->GetVocabulary().Index(ws[i]);
      State out, outg, gs;
      // poison the out-parameters so that stale garbage cannot look right by accident
      memset(&out, 0xAB, sizeof out); memset(&outg, 0xCD, sizeof outg); memset(&gs, 0xEF, sizeof gs);
      lm::FullScoreReturn r = m->FullScore(s, id, out);
      std::vector<lm::WordIndex> rev(hist.rbegin(), hist.rend());
      const lm::WordIndex *rb = rev.empty() ? NULL : &rev[0];
      lm::FullScoreReturn rg = m->FullScoreForgotState(rb, rb + rev.size(), id, outg);
      hist.push_back(id);
      std::vector<lm::WordIndex> rev2(hist.rbegin(), hist.rend());
      m->GetState(&rev2[0], &rev2[0] + rev2.size(), gs);
      if (i) o << " | ";
      o << ws[i] << ' ' << RetStr(r, out) << ' ' << RetStr(rg, outg) << ' ' << StateStr(gs);
      s = out;
    }
    return o.str();
  }
};

static const char *Classify(const std::exception &e) {
  if (dynamic_cast<const util::ProbingSizeException*>(&e)) return "probing-size";
  if (dynamic_cast<const lm::ConfigException*>(&e)) return "config";
  if (dynamic_cast<const lm::FormatLoadException*>(&e)) return "format";
  if (dynamic_cast<const util::EndOfFileException*>(&e)) return "eof";
  if (dynamic_cast<const util::ErrnoException*>(&e)) return "errno";
  if (dynamic_cast<const util::Exception*>(&e)) return "parse";
  return "other";
}

static AnyModel *Load(char cls, const char *file, const Opts &o) {
  switch (cls) {
    case 'P': return new Holder<ProbingModel>(file, o);
    case 'R': return new Holder<RestProbingModel>(file, o);
    case 'T': return new Holder<TrieModel>(file, o);
    case 'A': return new Holder<ArrayTrieModel>(file, o);
    case 'Q': return new Holder<QuantTrieModel>(file, o);
    case 'B': return new Holder<QuantArrayTrieModel>(file, o);
  }
  return NULL;
}

int main() {
  std::string line;
  std::vector<std::pair<char, AnyModel*> > models;
  while (std::getline(std::cin, line)) {
    std::istringstream in(line);
    std::string op;
    in >> op;
    if (op == "arpa" || op == "bin") {
      for (size_t i = 0; i < models.size(); ++i) delete models[i].second;
      models.clear();
      std::string path; in >> path;
      Opts o;
      std::string kv;
      if (op == "bin") { in >> o.classes; }
      while (in >> kv) {
        size_t eq = kv.find('=');
        if (eq == std::string::npos) continue;
        std::string k = kv.substr(0, eq), v = kv.substr(eq + 1);
        if (k == "mult") o.mult = atof(v.c_str());
        else if (k == "abits") o.abits = atoi(v.c_str());
        else if (k == "pbits") o.pbits = atoi(v.c_str());
        else if (k == "bbits") o.bbits = atoi(v.c_str());
        else if (k == "mem") o.mem = strtoull(v.c_str(), NULL, 10);
        else if (k == "classes") o.classes = v;
      }
      std::ostringstream out;
      out << op;
      for (size_t i = 0; i < o.classes.size(); ++i) {
        char c = o.classes[i];
        try {
          AnyModel *m = Load(c, path.c_str(), o);
          if (m) { models.push_back(std::make_pair(c, m)); out << ' ' << c << "=ok"; }
        } catch (const std::exception &e) {
          out << ' ' << c << '=' << Classify(e);
        }
      }
      puts(out.str().c_str());
    } else if (op == "q") {
      std::string start; in >> start;
      std::vector<std::string> ws; std::string w;
      while (in >> w) ws.push_back(w);
      std::ostringstream out;
      for (size_t i = 0; i < models.size(); ++i) {
        if (i) out << " ## ";
        out << models[i].first << ": " << models[i].second->Walk(start, ws);
      }
      puts(out.str().c_str());
    } else if (op == "e") {
      std::vector<std::string> ws; std::string w;
      while (in >> w) ws.push_back(w);
      std::ostringstream out;
      bool first = true;
      for (size_t i = 0; i < models.size(); ++i) {
        std::string r = models[i].second->Enum(ws);
        if (r == "-") continue;
        if (!first) out << " ## ";
        first = false;
        out << models[i].first << ": " << r;
      }
      puts(out.str().c_str());
    } else {
      puts("bad-op");
    }
    fflush(stdout);
  }
  for (size_t i = 0; i < models.size(); ++i) delete models[i].second;
  return 0;
}
