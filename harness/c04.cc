// C04 harness: the real kenlm model classes in-process (ASan+UBSan build of the current tree).
// One op per stdin line, one canonical result line per op.  Private members are opened so the
// offsets that the real SetupMemory produced on load can be printed (values only, relative to
// the start of the mapping; never raw addresses).
#include <algorithm>
#include <cstdio>
#include <cstring>
#include <fstream>
#include <iostream>
#include <map>
#include <sstream>
#include <string>
#include <vector>
#include <memory>
#include <limits>
#include <numeric>
#include <functional>
#include <cmath>
#include <cassert>
#include <stdint.h>
#include <sys/stat.h>
#include <unistd.h>
#include <fcntl.h>

#define private public
#define protected public
#include "lm/model.hh"
#include "lm/binary_format.hh"
#include "lm/enumerate_vocab.hh"
#include "lm/lm_exception.hh"
#include "util/probing_hash_table.hh"
#include "util/file.hh"
#undef private
#undef protected

namespace lm { namespace ngram {
void ReadHeader(int fd, Parameters &out);           // defined in binary_format.cc (not in the header)
} }

using namespace lm::ngram;

struct Collect : public lm::EnumerateVocab {
  std::vector<std::pair<lm::WordIndex, std::string> > v;
  void Add(lm::WordIndex index, const StringPiece &str) { v.push_back(std::make_pair(index, std::string(str.data(), str.size()))); }
};

struct SlotBase {
  int type;
  bool have_enum;
  Collect en;
  bool from_binary;
  std::string file;
  virtual ~SlotBase() {}
};
template <class M> struct Slot : SlotBase {
  std::unique_ptr<M> m;
};

static std::map<std::string, std::unique_ptr<SlotBase> > slots;

static uint32_t FBits(float f) { uint32_t u; std::memcpy(&u, &f, 4); return u; }
static float BitsF(uint32_t u) { float f; std::memcpy(&f, &u, 4); return f; }

static uint64_t Fnv(uint64_t h, const void *p, size_t n) {
  const unsigned char *c = static_cast<const unsigned char*>(p);
  for (size_t i = 0; i < n; ++i) { h ^= c[i]; h *= 1099511628211ULL; }
  return h;
}

template <class F> static std::string Guard(F f) {
  try {
    return f();
  } catch (const lm::SpecialWordMissingException &e) { return "err special";
  } catch (const lm::FormatLoadException &e) { return std::string("err format");
  } catch (const lm::ConfigException &e) { return "err config";
  } catch (const util::ProbingSizeException &e) { return "err probing-size";
  } catch (const util::ErrnoException &e) { return "err errno";
  } catch (const util::Exception &e) { return std::string("err exception");
  } catch (const std::exception &e) { return "err std"; }
}

static std::string EnumDigest(const Collect &c) {
  uint64_t h = 1469598103934665603ULL;
  for (size_t i = 0; i < c.v.size(); ++i) {
    h = Fnv(h, &c.v[i].first, sizeof(lm::WordIndex));
    h = Fnv(h, c.v[i].second.data(), c.v[i].second.size());
    h = Fnv(h, "\0", 1);
  }
  std::ostringstream o;
  o << c.v.size() << ":" << std::hex << h;
  return o.str();
}

template <class M> static std::string Meta(Slot<M> &s) {
  std::ostringstream o;
  o << "ok order=" << (unsigned)s.m->Order() << " bound=" << s.m->GetVocabulary().Bound()
    << " bos=" << s.m->GetVocabulary().BeginSentence() << " eos=" << s.m->GetVocabulary().EndSentence()
    << " unk=" << s.m->GetVocabulary().NotFound()
    << " enum=" << (s.have_enum ? EnumDigest(s.en) : std::string("-"));
  return o.str();
}

template <class M> static std::string Build(const std::vector<std::string> &a) {
  // build slot type arpa out wm iv ev multbits pb bb ab
  std::unique_ptr<Slot<M> > s(new Slot<M>());
  Config c;
  c.messages = NULL; c.show_progress = false;
  c.unknown_missing = lm::SILENT; c.sentence_marker_missing = lm::SILENT; c.positive_log_probability = lm::SILENT;
  c.arpa_complain = Config::NONE;
  std::string out = a[4];
  c.write_mmap = out == "-" ? NULL : out.c_str();
  c.write_method = a[5] == "mmap" ? Config::WRITE_MMAP : Config::WRITE_AFTER;
  c.include_vocab = a[6] == "1";
  s->have_enum = a[7] == "1";
  c.enumerate_vocab = s->have_enum ? &s->en : NULL;
  c.probing_multiplier = BitsF(std::strtoul(a[8].c_str(), NULL, 10));
  c.prob_bits = std::atoi(a[9].c_str());
  c.backoff_bits = std::atoi(a[10].c_str());
  c.pointer_bhiksha_bits = std::atoi(a[11].c_str());
  c.temporary_directory_prefix = a[3] + ".tmp";
  s->type = M::kModelType;
  s->from_binary = false;
  s->file = out;
  Slot<M> *sp = s.get();
  std::string r = Guard([&]() { sp->m.reset(new M(a[3].c_str(), c)); return Meta(*sp); });
  if (r.compare(0, 2, "ok") == 0) slots[a[1]] = std::move(s); else slots.erase(a[1]);
  return r;
}

template <class M> static std::string Load(const std::vector<std::string> &a) {
  // load slot type file lm ev
  std::unique_ptr<Slot<M> > s(new Slot<M>());
  Config c;
  c.messages = NULL; c.show_progress = false;
  // deliberately different from every builder configuration: the file must override these
  c.probing_multiplier = 7.25; c.prob_bits = 3; c.backoff_bits = 4; c.pointer_bhiksha_bits = 9;
  int lmeth = std::atoi(a[4].c_str());
  c.load_method = lmeth == 0 ? util::LAZY : lmeth == 1 ? util::POPULATE_OR_LAZY : lmeth == 2 ? util::POPULATE_OR_READ : util::READ;
  s->have_enum = a[5] == "1";
  c.enumerate_vocab = s->have_enum ? &s->en : NULL;
  s->type = M::kModelType;
  s->from_binary = true;
  s->file = a[3];
  Slot<M> *sp = s.get();
  std::string r = Guard([&]() { sp->m.reset(new M(a[3].c_str(), c)); return Meta(*sp); });
  if (r.compare(0, 2, "ok") == 0) slots[a[1]] = std::move(s); else slots.erase(a[1]);
  return r;
}

// ---- layout of a binary-loaded model: offsets relative to the start of the file mapping ----
static uint64_t FileSize(const std::string &f) {
  struct stat st;
  if (stat(f.c_str(), &st)) return (uint64_t)-1;
  return st.st_size;
}

template <class Table> static void TabOut(std::ostream &o, const Table &t, const uint8_t *base) {
  o << (reinterpret_cast<const uint8_t*>(t.begin_) - base) << ":" << t.buckets_;
}

template <class M> static std::string LayoutProbing(Slot<M> &s) {
  if (!s.from_binary) return "err notbinary";
  M &m = *s.m;
  const uint8_t *base = static_cast<const uint8_t*>(m.backing_.mapping_.get());
  std::ostringstream o;
  o << "probing hdr=" << m.backing_.header_size_
    << " vocab=" << (reinterpret_cast<const uint8_t*>(m.vocab_.header_) - base)
    << " vtab=";
  TabOut(o, m.vocab_.lookup_, base);
  o << " uni=" << (reinterpret_cast<const uint8_t*>(m.search_.unigram_.unigram_) - base) << " mid=";
  for (size_t i = 0; i < m.search_.middle_.size(); ++i) { if (i) o << ","; TabOut(o, m.search_.middle_[i], base); }
  if (m.search_.middle_.empty()) o << "-";
  o << " longest=";
  TabOut(o, m.search_.longest_, base);
  o << " end=" << m.backing_.vocab_string_offset_ << " mapped=" << m.backing_.mapping_.size()
    << " fsize=" << FileSize(s.file);
  return o.str();
}

static void BhikshaOut(std::ostream &o, const trie::DontBhiksha &b, const uint8_t *) {
  o << "-:-:-:" << (unsigned)b.next_.bits;
}
static void BhikshaOut(std::ostream &o, const trie::ArrayBhiksha &b, const uint8_t *base) {
  o << (static_cast<const uint8_t*>(b.original_base_) - base) << ":"
    << (reinterpret_cast<const uint8_t*>(b.offset_begin_) - base) << ":"
    << (reinterpret_cast<const uint8_t*>(b.offset_end_) - base) << ":" << (unsigned)b.next_inline_.bits;
}
static void QuantOut(std::ostream &o, const DontQuantize &, const uint8_t *, unsigned) { o << "-"; }
static void QuantOut(std::ostream &o, const SeparatelyQuantize &q, const uint8_t *base, unsigned order) {
  o << (q.actual_base_ - base) << "/" << (unsigned)q.prob_bits_ << "/" << (unsigned)q.backoff_bits_ << "/";
  for (unsigned i = 0; i + 2 < order; ++i) {
    o << (reinterpret_cast<const uint8_t*>(q.tables_[i][0].begin_) - base) << "+"
      << (reinterpret_cast<const uint8_t*>(q.tables_[i][1].begin_) - base) << "+";
  }
  o << (reinterpret_cast<const uint8_t*>(q.longest_.begin_) - base);
}

template <class M> static std::string LayoutTrie(Slot<M> &s) {
  if (!s.from_binary) return "err notbinary";
  M &m = *s.m;
  const uint8_t *base = static_cast<const uint8_t*>(m.backing_.mapping_.get());
  std::ostringstream o;
  o << "trie hdr=" << m.backing_.header_size_
    << " vocab=" << (reinterpret_cast<const uint8_t*>(m.vocab_.begin_ - 1) - base)
    << " vend=" << (reinterpret_cast<const uint8_t*>(m.vocab_.end_) - base)
    << " quant=";
  QuantOut(o, m.search_.quant_, base, m.Order());
  o << " uni=" << (reinterpret_cast<const uint8_t*>(m.search_.unigram_.unigram_) - base) << " mid=";
  size_t nm = m.search_.middle_end_ - m.search_.middle_begin_;
  for (size_t i = 0; i < nm; ++i) {
    if (i) o << ",";
    BhikshaOut(o, m.search_.middle_begin_[i].bhiksha_, base);
    o << ":" << (m.search_.middle_begin_[i].base_ - base) << ":" << (unsigned)m.search_.middle_begin_[i].word_bits_
      << ":" << (unsigned)m.search_.middle_begin_[i].total_bits_ << ":" << (unsigned)m.search_.middle_begin_[i].quant_bits_;
  }
  if (!nm) o << "-";
  o << " longest=" << (m.search_.longest_.base_ - base) << ":" << (unsigned)m.search_.longest_.word_bits_ << ":"
    << (unsigned)m.search_.longest_.total_bits_
    << " end=" << m.backing_.vocab_string_offset_ << " mapped=" << m.backing_.mapping_.size()
    << " fsize=" << FileSize(s.file);
  return o.str();
}

// ---- queries -------------------------------------------------------------------------------
template <class M> static void RunQueries(M &m, const std::string &qfile, std::vector<std::string> &out) {
  std::ifstream in(qfile.c_str());
  std::string line;
  unsigned ln = 0;
  while (std::getline(in, line)) {
    ++ln;
    std::istringstream ws(line);
    std::string w;
    std::vector<std::string> words;
    while (ws >> w) words.push_back(w);
    words.push_back("</s>");
    for (int start = 0; start < 2; ++start) {
      State st = start == 0 ? m.BeginSentenceState() : m.NullContextState(), nx;
      for (size_t i = 0; i < words.size(); ++i) {
        lm::WordIndex id = m.GetVocabulary().Index(words[i]);
        nx = State();
        lm::FullScoreReturn r = m.FullScore(st, id, nx);
        std::ostringstream o;
        o << ln << "/" << start << "/" << i << " id=" << id << " p=" << std::hex << FBits(r.prob) << std::dec
          << " n=" << (unsigned)r.ngram_length << " il=" << (r.independent_left ? 1 : 0)
          << " el=" << (r.independent_left ? 0 : r.extend_left) << " rest=" << std::hex << FBits(r.rest) << std::dec
          << " st=" << (unsigned)nx.length;
        for (unsigned k = 0; k < nx.length; ++k) o << "," << nx.words[k] << ":" << std::hex << FBits(nx.backoff[k]) << std::dec;
        out.push_back(o.str());
        st = nx;
      }
    }
  }
}

template <class M> static std::string Query(SlotBase *a, SlotBase *b, const std::string &qfile) {
  std::vector<std::string> ra, rb;
  RunQueries(*static_cast<Slot<M>*>(a)->m, qfile, ra);
  RunQueries(*static_cast<Slot<M>*>(b)->m, qfile, rb);
  if (ra.size() != rb.size()) return "diff count";
  uint64_t h = 1469598103934665603ULL;
  for (size_t i = 0; i < ra.size(); ++i) {
    if (ra[i] != rb[i]) return "diff A[" + ra[i] + "] B[" + rb[i] + "]";
    h = Fnv(h, ra[i].data(), ra[i].size());
  }
  std::ostringstream o;
  o << "same n=" << ra.size() << " digest=" << std::hex << h;
  return o.str();
}

#define DISPATCH(type, FN, ...) \
  ((type) == 0 ? FN<ProbingModel>(__VA_ARGS__) : (type) == 1 ? FN<RestProbingModel>(__VA_ARGS__) : \
   (type) == 2 ? FN<TrieModel>(__VA_ARGS__) : (type) == 3 ? FN<QuantTrieModel>(__VA_ARGS__) : \
   (type) == 4 ? FN<ArrayTrieModel>(__VA_ARGS__) : FN<QuantArrayTrieModel>(__VA_ARGS__))

template <class M> static std::string LayoutAny(SlotBase *s);
template <> std::string LayoutAny<ProbingModel>(SlotBase *s) { return LayoutProbing(*static_cast<Slot<ProbingModel>*>(s)); }
template <> std::string LayoutAny<RestProbingModel>(SlotBase *s) { return LayoutProbing(*static_cast<Slot<RestProbingModel>*>(s)); }
template <> std::string LayoutAny<TrieModel>(SlotBase *s) { return LayoutTrie(*static_cast<Slot<TrieModel>*>(s)); }
template <> std::string LayoutAny<QuantTrieModel>(SlotBase *s) { return LayoutTrie(*static_cast<Slot<QuantTrieModel>*>(s)); }
template <> std::string LayoutAny<ArrayTrieModel>(SlotBase *s) { return LayoutTrie(*static_cast<Slot<ArrayTrieModel>*>(s)); }
template <> std::string LayoutAny<QuantArrayTrieModel>(SlotBase *s) { return LayoutTrie(*static_cast<Slot<QuantArrayTrieModel>*>(s)); }

static std::string Recognize(const std::string &file) {
  return Guard([&]() {
    ModelType t;
    std::ostringstream o;
    if (RecognizeBinary(file.c_str(), t)) o << "bin " << (unsigned)t; else o << "notbin";
    return o.str();
  });
}

static std::string HdrParse(const std::string &file) {
  return Guard([&]() -> std::string {
    util::scoped_fd fd(util::OpenReadOrThrow(file.c_str()));
    if (!IsBinaryFormat(fd.get())) return "notbin";
    Parameters p;
    ReadHeader(fd.get(), p);
    std::ostringstream o;
    o << "bin order=" << (unsigned)p.fixed.order << " mult=" << FBits(p.fixed.probing_multiplier)
      << " type=" << (unsigned)p.fixed.model_type << " vocab=" << (p.fixed.has_vocabulary ? 1 : 0)
      << " ver=" << p.fixed.search_version << " counts=";
    for (size_t i = 0; i < p.counts.size(); ++i) o << (i ? "," : "") << p.counts[i];
    return o.str();
  });
}

// public Size functions on given counts (no file): what Size() says for a configuration
static std::string Sizes(const std::vector<std::string> &a) {
  // sizes type multbits pb bb ab c1 c2 ...
  int type = std::atoi(a[1].c_str());
  Config c;
  c.probing_multiplier = BitsF(std::strtoul(a[2].c_str(), NULL, 10));
  c.prob_bits = std::atoi(a[3].c_str()); c.backoff_bits = std::atoi(a[4].c_str()); c.pointer_bhiksha_bits = std::atoi(a[5].c_str());
  std::vector<uint64_t> counts;
  for (size_t i = 6; i < a.size(); ++i) counts.push_back(std::strtoull(a[i].c_str(), NULL, 10));
  std::ostringstream o;
  uint64_t total = type == 0 ? ProbingModel::Size(counts, c) : type == 1 ? RestProbingModel::Size(counts, c)
    : type == 2 ? TrieModel::Size(counts, c) : type == 3 ? QuantTrieModel::Size(counts, c)
    : type == 4 ? ArrayTrieModel::Size(counts, c) : QuantArrayTrieModel::Size(counts, c);
  uint64_t vocab = type < 2 ? ProbingVocabulary::Size(counts[0], c) : SortedVocabulary::Size(counts[0], c);
  o << "sizes vocab=" << vocab << " search=" << (total - vocab);
  return o.str();
}

// ---- ArrayBhiksha on a private buffer: the pointer sequence vs[0..n] of one middle order ----
static std::string BhikshaOp(const std::vector<std::string> &a) {
  // bhiksha maxOffset maxNext cfgbits v0 v1 ...
  uint64_t max_offset = std::strtoull(a[1].c_str(), NULL, 10), max_next = std::strtoull(a[2].c_str(), NULL, 10);
  Config c;
  c.pointer_bhiksha_bits = std::atoi(a[3].c_str());
  std::vector<uint64_t> vs;
  for (size_t i = 4; i < a.size(); ++i) vs.push_back(std::strtoull(a[i].c_str(), NULL, 10));
  uint64_t size = trie::ArrayBhiksha::Size(max_offset, max_next, c);
  unsigned inl = trie::ArrayBhiksha::InlineBits(max_offset, max_next, c);
  std::vector<uint64_t> buf(size / 8 + 2, 0);                      // 8-aligned base
  std::vector<uint8_t> packed((vs.size() + 1) * 64 / 8 + 16, 0);
  trie::ArrayBhiksha b(&buf[0], max_offset, max_next, c);
  std::ostringstream o;
  o << "bh bits=" << inl << " count=" << (b.offset_end_ - b.offset_begin_);
  for (size_t i = 0; i < vs.size(); ++i) b.WriteNext(&packed[0], i * inl, i, vs[i]);
  try {
    b.FinishedLoading(c);
  } catch (const util::Exception &e) { o << " err"; return o.str(); }
  o << " table=";
  for (const uint64_t *p = b.offset_begin_; p != b.offset_end_; ++p) o << (p == b.offset_begin_ ? "" : ",") << *p;
  o << " reads=";
  for (size_t i = 0; i + 1 < vs.size(); ++i) {
    trie::NodeRange r;
    b.ReadNext(&packed[0], i * inl, i, inl, r);
    o << (i ? "," : "") << r.begin << ":" << r.end;
  }
  return o.str();
}

// ---- SeparatelyQuantize value semantics: train one table, encode/decode ----------------------
static std::string QuantOp(const std::vector<std::string> &a) {
  // quant bits reserved nv v... q...
  unsigned bits = std::atoi(a[1].c_str()), reserved = std::atoi(a[2].c_str());
  size_t nv = std::strtoull(a[3].c_str(), NULL, 10);
  std::vector<float> vals, queries;
  for (size_t i = 4; i < a.size(); ++i) (i < 4 + nv ? vals : queries).push_back(BitsF(std::strtoul(a[i].c_str(), NULL, 10)));
  Config c;
  c.prob_bits = bits; c.backoff_bits = bits;
  std::vector<uint64_t> buf(SeparatelyQuantize::Size(3, c) / 8 + 1, 0);
  SeparatelyQuantize q;
  q.SetupMemory(&buf[0], 3, c);
  std::vector<float> empty;
  if (reserved == 2) q.Train(2, empty, vals); else q.Train(2, vals, empty);
  const SeparatelyQuantize::Bins &bins = q.tables_[0][reserved == 2 ? 1 : 0];
  std::ostringstream o;
  o << "q centers=";
  for (const float *p = bins.begin_; p != bins.end_; ++p) o << (p == bins.begin_ ? "" : ",") << FBits(*p);
  o << " enc=";
  for (size_t i = 0; i < queries.size(); ++i) {
    uint64_t code = reserved == 2 ? bins.EncodeBackoff(queries[i]) : bins.EncodeProb(queries[i]);
    o << (i ? "," : "") << code << ":" << FBits(bins.Decode(code));
  }
  return o.str();
}

static std::string BucketsOp(const std::vector<std::string> &a) {
  float m = BitsF(std::strtoul(a[1].c_str(), NULL, 10));
  uint64_t e = std::strtoull(a[2].c_str(), NULL, 10);
  std::ostringstream o;
  o << "buckets " << (util::ProbingHashTable<ProbingVocabularyEntry, util::IdentityHash>::Size(e, m) / sizeof(ProbingVocabularyEntry));
  return o.str();
}

// ---- raw TrieSearch lookups along the chain of child ranges (opened interface) ----------------
template <class M, class S> static std::string TrieQ(SlotBase *sb, const std::vector<std::string> &a) {
  M &m = *static_cast<Slot<M>*>(sb)->m;
  std::vector<lm::WordIndex> ws;
  for (size_t i = 2; i < a.size(); ++i) ws.push_back(std::strtoul(a[i].c_str(), NULL, 10));
  std::ostringstream o;
  typename S::Node node;
  bool il;
  uint64_t el;
  typename S::UnigramPointer u(m.search_.LookupUnigram(ws[0], node, il, el));
  o << "tq u:" << FBits(u.Prob()) << ":" << FBits(u.Backoff()) << ":" << node.begin << ":" << node.end;
  unsigned order = m.Order();
  for (size_t i = 1; i < ws.size(); ++i) {
    if (i + 1 == order) {
      typename S::LongestPointer l(m.search_.LookupLongest(ws[i], node));
      if (!l.Found()) o << " nf"; else o << " l:" << FBits(l.Prob());
      break;
    }
    typename S::MiddlePointer p(m.search_.LookupMiddle(i - 1, ws[i], node, il, el));
    if (!p.Found()) { o << " nf"; break; }
    o << " m:" << FBits(p.Prob()) << ":" << FBits(p.Backoff()) << ":" << node.begin << ":" << node.end;
  }
  return o.str();
}
int main() {
  std::string line;
  while (std::getline(std::cin, line)) {
    std::istringstream ls(line);
    std::vector<std::string> a;
    std::string t;
    while (ls >> t) a.push_back(t);
    std::string r = "bad-op";
    if (a.empty()) {
    } else if (a[0] == "build" && a.size() == 12) {
      int type = std::atoi(a[2].c_str());
      r = DISPATCH(type, Build, a);
    } else if (a[0] == "load" && a.size() == 6) {
      int type = std::atoi(a[2].c_str());
      r = DISPATCH(type, Load, a);
    } else if (a[0] == "layout" && a.size() == 2) {
      if (slots.count(a[1])) { SlotBase *s = slots[a[1]].get(); r = DISPATCH(s->type, LayoutAny, s); } else r = "err noslot";
    } else if (a[0] == "query" && a.size() == 4) {
      if (slots.count(a[1]) && slots.count(a[2]) && slots[a[1]]->type == slots[a[2]]->type) {
        SlotBase *x = slots[a[1]].get(), *y = slots[a[2]].get();
        r = DISPATCH(x->type, Query, x, y, a[3]);
      } else r = "err noslot";
    } else if (a[0] == "enumcmp" && a.size() == 3) {
      if (slots.count(a[1]) && slots.count(a[2])) {
        const Collect &x = slots[a[1]]->en, &y = slots[a[2]]->en;
        if (x.v == y.v) { r = "same " + EnumDigest(x); }
        else {
          size_t i = 0;
          while (i < x.v.size() && i < y.v.size() && x.v[i] == y.v[i]) ++i;
          std::ostringstream o;
          o << "diff at=" << i << " sizes=" << x.v.size() << "," << y.v.size();
          r = o.str();
        }
      } else r = "err noslot";
    } else if (a[0] == "enumdump" && a.size() == 2) {
      if (slots.count(a[1])) {
        std::ostringstream o;
        o << "enum";
        const Collect &x = slots[a[1]]->en;
        for (size_t i = 0; i < x.v.size(); ++i) {
          o << " " << x.v[i].first << "=";
          for (size_t k = 0; k < x.v[i].second.size(); ++k) { char b[3]; std::snprintf(b, 3, "%02x", (unsigned char)x.v[i].second[k]); o << b; }
        }
        r = o.str();
      } else r = "err noslot";
    } else if (a[0] == "recognize" && a.size() == 2) {
      r = Recognize(a[1]);
    } else if (a[0] == "hdrparse" && a.size() == 2) {
      r = HdrParse(a[1]);
    } else if (a[0] == "sizes" && a.size() >= 8) {
      r = Guard([&]() { return Sizes(a); });
    } else if (a[0] == "bhiksha" && a.size() >= 5) {
      r = Guard([&]() { return BhikshaOp(a); });
    } else if (a[0] == "quant" && a.size() >= 4) {
      r = Guard([&]() { return QuantOp(a); });
    } else if (a[0] == "buckets" && a.size() == 3) {
      r = Guard([&]() { return BucketsOp(a); });
    } else if (a[0] == "trieq" && a.size() >= 3) {
      if (!slots.count(a[1])) r = "err noslot";
      else {
        SlotBase *sb = slots[a[1]].get();
        r = sb->type == 2 ? TrieQ<TrieModel, trie::TrieSearch<DontQuantize, trie::DontBhiksha> >(sb, a)
          : sb->type == 3 ? TrieQ<QuantTrieModel, trie::TrieSearch<SeparatelyQuantize, trie::DontBhiksha> >(sb, a)
          : sb->type == 4 ? TrieQ<ArrayTrieModel, trie::TrieSearch<DontQuantize, trie::ArrayBhiksha> >(sb, a)
          : sb->type == 5 ? TrieQ<QuantArrayTrieModel, trie::TrieSearch<SeparatelyQuantize, trie::ArrayBhiksha> >(sb, a)
          : std::string("err nottrie");
      }
    } else if (a[0] == "free" && a.size() == 2) {
      slots.erase(a[1]);
      r = "ok";
    }
    std::cout << r << std::endl;
  }
  slots.clear();
  return 0;
}
