// Harness for stream `left` (C08): chart-state scoring (lm/left.hh), GenericModel::ExtendLeft and lm/partial.hh
// on the six model classes plus the two rest-cost variants of RestProbingModel, in-process.
// Same op lines as lean/Driver/C08.lean:
//   arpa <path> [mult=<f>] [abits=<n>] [classes=PRLTAQB] [lower=<p1>,<p2>,...]
//        classes: P probing, R rest-probing REST_MAX, L rest-probing REST_LOWER, T trie, A array-trie, Q quant-trie, B quant-array-trie
//   d|D B|N <tokens: ( ) word ...>     derivation (D: BeginNonTerminal for a leading non-terminal)
//   x u1 ... um | c1 ... ck            ExtendLeft directly
//   p <a> <b> <steps> w1 ... wn        RevealBefore / RevealAfter protocol of lm/partial_test.cc
//   s <a> w1 ... wn                    Subsume
// One output line per op; class segments separated by " ## ", records by " | ".  Floats as bit patterns.
#include "lm/model.hh"
#include "lm/left.hh"
#include "lm/partial.hh"
#include "lm/enumerate_vocab.hh"
#include "lm/lm_exception.hh"
#include "util/exception.hh"
#include "util/probing_hash_table.hh"
#include <cstdio>
#include <cstdlib>
#include <cstring>
#include <iostream>
#include <sstream>
#include <string>
#include <vector>
#include <deque>

using namespace lm::ngram;

static uint32_t fbits(float f) { uint32_t u; memcpy(&u, &f, 4); return u; }
static std::string fhex(float f) { char b[16]; snprintf(b, sizeof b, "%08x", fbits(f)); return b; }

struct Names : public lm::EnumerateVocab {
  std::vector<std::string> names;
  void Add(lm::WordIndex index, const StringPiece &str) {
    if (names.size() <= index) names.resize(index + 1);
    names[index] = std::string(str.data(), str.size());
  }
};

struct Opts {
  float mult; int abits; std::string classes; std::vector<std::string> lower;
  Opts() : mult(1.5), abits(-1), classes("PRTAQB") {}
};

struct AnyModel {
  virtual ~AnyModel() {}
  virtual std::string Deriv(bool begin_nt, const std::string &start, const std::vector<std::string> &toks) = 0;
  virtual std::string Extend(const std::vector<std::string> &us, const std::vector<std::string> &cs) = 0;
  virtual std::string Partial(size_t a, size_t b, const std::string &steps, const std::vector<std::string> &ws) = 0;
  virtual std::string Sub(size_t a, const std::vector<std::string> &ws) = 0;
};

template <class M> struct Holder : public AnyModel {
  Names names;
  M *m;
  Holder(const char *file, const Opts &o, int rest) : m(NULL), shared_(NULL) {
    Config config;
    config.messages = NULL; config.arpa_complain = Config::NONE; config.show_progress = false;
    config.unknown_missing = lm::SILENT; config.sentence_marker_missing = lm::SILENT;
    config.positive_log_probability = lm::SILENT;
    config.probing_multiplier = o.mult;
    if (o.abits >= 0) config.pointer_bhiksha_bits = o.abits;
    config.enumerate_vocab = &names;
    if (rest == 1) config.rest_function = Config::REST_MAX;
    if (rest == 2) { config.rest_function = Config::REST_LOWER; config.rest_lower_files = o.lower; }
    m = new M(file, config);
    shared_ = new RuleScore<M>(*m, scratch_); cur_ = &scratch_; rng_ = 88172645463325252ULL;
  }
  ~Holder() { delete shared_; delete m; }

  // ---- API history: ONE RuleScore object reused through Reset() / Reset(ChartState&) for every rule application
  ChartState scratch_;
  RuleScore<M> *shared_;
  ChartState *cur_;          // what shared_ currently writes to (only compared, never dereferenced)
  uint64_t rng_;
  unsigned Rand() { rng_ ^= rng_ << 13; rng_ ^= rng_ >> 7; rng_ ^= rng_ << 17; return (unsigned)(rng_ >> 11); }
  // returns true when the rule is scored into scratch_ and has to be copied out after Finish()
  bool ResetShared(ChartState &node_out) {
    unsigned r = Rand() % 3;
    if (r == 0 && cur_ == &scratch_) { shared_->Reset(); return true; }          // stale contents stay
    if (r == 1) { memset(&scratch_, 0xAB, sizeof scratch_); shared_->Reset(scratch_); cur_ = &scratch_; return true; }
    memset(&node_out, 0xAB, sizeof node_out); shared_->Reset(node_out); cur_ = &node_out; return false;
  }
  // a history that leaves the object with a closed left state (or not) before the derivation starts
  void Prime(const std::vector<std::string> &toks) {
    uint64_t h = 1469598103934665603ULL;
    for (size_t i = 0; i < toks.size(); ++i) for (size_t k = 0; k <= toks[i].size(); ++k) { h ^= (unsigned char)toks[i].c_str()[k]; h *= 1099511628211ULL; }
    rng_ = h | 1;
    memset(&scratch_, 0xAB, sizeof scratch_);
    shared_->Reset(scratch_); cur_ = &scratch_;
    switch (Rand() % 4) {
      case 0: break;
      case 1: shared_->BeginSentence(); shared_->Finish(); break;
      case 2: shared_->Terminal(0); shared_->Finish(); break;                      // <unk>: independent left
      default: shared_->BeginSentence(); for (size_t i = 0; i < toks.size(); ++i) if (toks[i] != "(" && toks[i] != ")") shared_->Terminal(Index(toks[i])); shared_->Finish();
    }
  }
  // bottom-up like a chart decoder: all non-terminals of a rule are complete before the rule itself is applied
  float RuleReused(size_t &pos, const std::vector<std::string> &toks, ChartState &out, bool begin, bool begin_nt, std::ostringstream &o) {
    std::deque<ChartState> kids; std::vector<float> kp; std::vector<long> items;   // >= 0: word, < 0: -(kid+1)
    while (pos < toks.size() && toks[pos] != ")") {
      if (toks[pos] == "(") {
        ++pos;
        kids.push_back(ChartState());
        float p = RuleReused(pos, toks, kids.back(), false, begin_nt, o);
        o << fhex(p) << ' ' << ChartStr(kids.back()) << " | ";
        kp.push_back(p); items.push_back(-(long)kids.size());
      } else {
        items.push_back((long)Index(toks[pos]));
        ++pos;
      }
    }
    if (pos < toks.size()) ++pos;
    bool copy = ResetShared(out);
    RuleScore<M> &rs = *shared_;
    if (begin) rs.BeginSentence();
    bool first = !begin;
    for (size_t i = 0; i < items.size(); ++i) {
      if (items[i] < 0) {
        size_t k = (size_t)(-items[i] - 1);
        if (first && begin_nt) rs.BeginNonTerminal(kids[k], kp[k]); else rs.NonTerminal(kids[k], kp[k]);
      } else rs.Terminal((lm::WordIndex)items[i]);
      first = false;
    }
    float ret = rs.Finish();
    if (copy) out = scratch_;
    return ret;
  }

  std::string Word(lm::WordIndex w) { return w < names.names.size() ? names.names[w] : std::string("?"); }
  lm::WordIndex Index(const std::string &s) { return m->GetVocabulary().Index(s); }

  std::string LeftStr(const Left &l) {
    std::ostringstream o;
    o << (unsigned)l.length << ' ' << (l.full ? 1 : 0) << ' ';
    if (!l.length) o << '-';
    for (unsigned i = 0; i < l.length; ++i) { char b[24]; snprintf(b, sizeof b, "%llx", (unsigned long long)l.pointers[i]); o << (i ? "," : "") << b; }
    return o.str();
  }
  std::string RightStr(const State &s) {
    std::ostringstream o;
    o << (unsigned)s.length << ' ';
    if (!s.length) { o << "- -"; return o.str(); }
    for (unsigned i = 0; i < s.length; ++i) o << (i ? "," : "") << Word(s.words[i]);
    o << ' ';
    for (unsigned i = 0; i < s.length; ++i) o << (i ? "," : "") << fhex(s.backoff[i]);
    return o.str();
  }
  std::string ChartStr(const ChartState &c) { return LeftStr(c.left) + " " + RightStr(c.right); }

  // ---- derivations
  float Rule(size_t &pos, const std::vector<std::string> &toks, ChartState &out, bool begin, bool begin_nt, std::ostringstream &o) {
    memset(&out, 0xAB, sizeof out);          // stale garbage must not matter
    RuleScore<M> rs(*m, out);
    if (begin) rs.BeginSentence();
    bool first = !begin;
    while (pos < toks.size() && toks[pos] != ")") {
      if (toks[pos] == "(") {
        ++pos;
        ChartState kid;
        float p = Rule(pos, toks, kid, false, begin_nt, o);
        o << fhex(p) << ' ' << ChartStr(kid) << " | ";
        if (first && begin_nt) rs.BeginNonTerminal(kid, p); else rs.NonTerminal(kid, p);
      } else {
        rs.Terminal(Index(toks[pos]));
        ++pos;
      }
      first = false;
    }
    if (pos < toks.size()) ++pos;
    return rs.Finish();
  }
  std::string Deriv(bool begin_nt, const std::string &start, const std::vector<std::string> &toks) {
    std::ostringstream o;
    size_t pos = 0;
    ChartState root;
    float p = Rule(pos, toks, root, start == "B", begin_nt, o);
    o << fhex(p) << ' ' << ChartStr(root);
    // the same derivation on the reused object: must be identical, bit for bit
    std::ostringstream o2;
    Prime(toks);
    pos = 0;
    ChartState root2;
    float p2 = RuleReused(pos, toks, root2, start == "B", begin_nt, o2);
    o2 << fhex(p2) << ' ' << ChartStr(root2);
    if (o.str() != o2.str()) return "RESETDIFF fresh: " + o.str() + " %% reused: " + o2.str();
    return o.str();
  }

  // ---- ExtendLeft directly
  std::string Extend(const std::vector<std::string> &us, const std::vector<std::string> &cs) {
    std::vector<lm::WordIndex> u, c;     // c newest first
    for (size_t i = 0; i < us.size(); ++i) u.push_back(Index(us[i]));
    for (size_t i = cs.size(); i > 0; --i) c.push_back(Index(cs[i - 1]));
    std::vector<uint64_t> ptrs; std::vector<float> bp, br;
    State s = m->NullContextState(), out;
    for (size_t i = 0; i < u.size() && i + 1 < KENLM_MAX_ORDER; ++i) {
      lm::FullScoreReturn r = m->FullScore(s, u[i], out);
      if (r.independent_left || r.ngram_length != i + 1) break;
      ptrs.push_back(r.extend_left); bp.push_back(r.prob); br.push_back(r.rest);
      s = out;
    }
    State cst; memset(&cst, 0xCD, sizeof cst);
    m->GetState(c.empty() ? NULL : &c[0], c.empty() ? NULL : &c[0] + c.size(), cst);
    std::ostringstream o;
    o << ptrs.size() << ' ' << (unsigned)cst.length << " ; ";
    float buf1[KENLM_MAX_ORDER], buf2[KENLM_MAX_ORDER];
    float *back_in = buf1, *back_out = buf2;
    for (unsigned i = 0; i < cst.length; ++i) back_in[i] = cst.backoff[i];
    unsigned char next_use = cst.length;
    bool firstrec = true;
    for (size_t i = 0; i < ptrs.size(); ++i) {
      if (!next_use) break;
      for (int k = 0; k < KENLM_MAX_ORDER; ++k) { uint32_t poison = 0x7fc00abc; memcpy(&back_out[k], &poison, 4); }
      lm::FullScoreReturn r = m->ExtendLeft(cst.words, cst.words + next_use, back_in, ptrs[i], i + 1, back_out, next_use);
      std::vector<lm::WordIndex> hist;
      for (size_t k = i; k > 0; --k) hist.push_back(u[k - 1]);
      hist.insert(hist.end(), c.begin(), c.end());
      State go; memset(&go, 0xEF, sizeof go);
      lm::FullScoreReturn g = m->FullScoreForgotState(hist.empty() ? NULL : &hist[0], hist.empty() ? NULL : &hist[0] + hist.size(), u[i], go);
      if (!firstrec) o << " | ";
      firstrec = false;
      o << fhex(r.prob) << ' ' << fhex(r.rest) << ' ' << (unsigned)r.ngram_length << ' ' << (int)r.independent_left << ' ' << (unsigned)next_use << ' ';
      if (!next_use) o << '-';
      for (unsigned k = 0; k < next_use; ++k) o << (k ? "," : "") << fhex(back_out[k]);
      o << ' ' << fhex(bp[i]) << ' ' << fhex(br[i]) << ' ' << fhex(g.prob) << ' ' << (unsigned)g.ngram_length << ' ' << (unsigned)go.length << ' ';
      if (go.length <= i + 1) o << '-';
      for (unsigned k = i + 1; k < go.length; ++k) o << (k > i + 1 ? "," : "") << fhex(go.backoff[k]);
      std::swap(back_in, back_out);
    }
    return o.str();
  }

  // ---- partial.hh
  float ScoreFragment(const std::vector<lm::WordIndex> &w, size_t b, size_t e, ChartState &out) {
    memset(&out, 0xAB, sizeof out);
    RuleScore<M> rs(*m, out);
    for (size_t i = b; i < e; ++i) rs.Terminal(w[i]);
    return rs.Finish();
  }
  std::string Partial(size_t a, size_t b, const std::string &steps, const std::vector<std::string> &ws) {
    std::vector<lm::WordIndex> w;
    for (size_t i = 0; i < ws.size(); ++i) w.push_back(Index(ws[i]));
    ChartState fullc, bc, mc, ac;
    float full = ScoreFragment(w, 0, w.size(), fullc);
    float bs = ScoreFragment(w, 0, a, bc), ms = ScoreFragment(w, a, b, mc), as = ScoreFragment(w, b, w.size(), ac);
    std::ostringstream recs;
    float sum = 0.0;
    unsigned nb = 0, na = 0;
    bool firstrec = true;
    Right before(bc.right);
    Left after(ac.left);
    after.full = false;
    for (size_t i = 0; i < steps.size(); ++i) {
      if (steps[i] == 'B' && nb < bc.right.length) {
        before.length = nb + 1;
        float adj = RevealBefore(*m, before, nb, false, mc.left, mc.right);
        ++nb; sum += adj;
        recs << (firstrec ? "" : " | ") << "B " << fhex(adj); firstrec = false;
      } else if (steps[i] == 'A' && na < ac.left.length) {
        after.length = na + 1;
        float adj = RevealAfter(*m, mc.left, mc.right, after, na);
        ++na; sum += adj;
        recs << (firstrec ? "" : " | ") << "A " << fhex(adj); firstrec = false;
      }
    }
    if (ac.left.full) {
      after.length = ac.left.length; after.full = true;
      float adj = RevealAfter(*m, mc.left, mc.right, after, after.length);
      sum += adj;
      recs << (firstrec ? "" : " | ") << "a " << fhex(adj); firstrec = false;
    }
    if (bc.left.full) {
      before.length = bc.right.length;
      float adj = RevealBefore(*m, before, before.length, true, mc.left, mc.right);
      sum += adj;
      recs << (firstrec ? "" : " | ") << "b " << fhex(adj); firstrec = false;
    }
    std::ostringstream o;
    o << fhex(full) << ' ' << fhex(bs) << ' ' << fhex(ms) << ' ' << fhex(as) << ' ' << fhex(sum) << " ; " << ChartStr(mc) << " ; " << recs.str();
    return o.str();
  }
  std::string Sub(size_t a, const std::vector<std::string> &ws) {
    std::vector<lm::WordIndex> w;
    for (size_t i = 0; i < ws.size(); ++i) w.push_back(Index(ws[i]));
    ChartState fullc, fc, sc;
    float full = ScoreFragment(w, 0, w.size(), fullc);
    float fs = ScoreFragment(w, 0, a, fc), ss = ScoreFragment(w, a, w.size(), sc);
    float adj = Subsume(*m, fc.left, fc.right, sc.left, sc.right, 0);
    ChartState res; res.left = fc.left; res.right = sc.right;
    std::ostringstream o;
    o << fhex(full) << ' ' << fhex(fs) << ' ' << fhex(ss) << ' ' << fhex(adj) << " ; " << ChartStr(res) << " ; " << ChartStr(fullc);
    return o.str();
  }
};

static const char *Classify(const std::exception &e) {
  if (dynamic_cast<const util::ProbingSizeException*>(&e)) return "probing-size";
  if (dynamic_cast<const lm::ConfigException*>(&e)) return "config";
  if (dynamic_cast<const lm::FormatLoadException*>(&e)) return "format";
  if (dynamic_cast<const util::EndOfFileException*>(&e)) return "eof";
  if (dynamic_cast<const util::ErrnoException*>(&e)) return "errno";
  if (dynamic_cast<const util::Exception*>(&e)) return "parse";
  return "other";
}

static AnyModel *Load(char cls, const char *file, const Opts &o) {
  switch (cls) {
    case 'P': return new Holder<ProbingModel>(file, o, 0);
    case 'R': return new Holder<RestProbingModel>(file, o, 1);
    case 'L': return new Holder<RestProbingModel>(file, o, 2);
    case 'T': return new Holder<TrieModel>(file, o, 0);
    case 'A': return new Holder<ArrayTrieModel>(file, o, 0);
    case 'Q': return new Holder<QuantTrieModel>(file, o, 0);
    case 'B': return new Holder<QuantArrayTrieModel>(file, o, 0);
  }
  return NULL;
}

static std::vector<std::string> Split(const std::string &s, char d) {
  std::vector<std::string> out; std::string cur;
  for (size_t i = 0; i < s.size(); ++i) { if (s[i] == d) { out.push_back(cur); cur.clear(); } else cur += s[i]; }
  out.push_back(cur);
  return out;
}

int main() {
  std::string line;
  std::vector<std::pair<char, AnyModel*> > models;
  while (std::getline(std::cin, line)) {
    std::istringstream in(line);
    std::string op;
    in >> op;
    std::ostringstream out;
    if (op == "arpa") {
      for (size_t i = 0; i < models.size(); ++i) delete models[i].second;
      models.clear();
      std::string path; in >> path;
      Opts o;
      std::string kv;
      while (in >> kv) {
        size_t eq = kv.find('=');
        if (eq == std::string::npos) continue;
        std::string k = kv.substr(0, eq), v = kv.substr(eq + 1);
        if (k == "mult") o.mult = atof(v.c_str());
        else if (k == "abits") o.abits = atoi(v.c_str());
        else if (k == "classes") o.classes = v;
        else if (k == "lower") o.lower = Split(v, ',');
      }
      out << op;
      for (size_t i = 0; i < o.classes.size(); ++i) {
        char c = o.classes[i];
        if (c == 'L' && o.lower.empty()) continue;
        try {
          AnyModel *m = Load(c, path.c_str(), o);
          if (m) { models.push_back(std::make_pair(c, m)); out << ' ' << c << "=ok"; }
        } catch (const std::exception &e) {
          out << ' ' << c << '=' << Classify(e);
        }
      }
    } else if (op == "d" || op == "D") {
      std::string start; in >> start;
      std::vector<std::string> toks; std::string w;
      while (in >> w) toks.push_back(w);
      for (size_t i = 0; i < models.size(); ++i)
        out << (i ? " ## " : "") << models[i].first << ": " << models[i].second->Deriv(op == "D", start, toks);
    } else if (op == "x") {
      std::vector<std::string> us, cs; std::string w; bool bar = false;
      while (in >> w) { if (w == "|") { bar = true; continue; } (bar ? cs : us).push_back(w); }
      for (size_t i = 0; i < models.size(); ++i)
        out << (i ? " ## " : "") << models[i].first << ": " << models[i].second->Extend(us, cs);
    } else if (op == "p") {
      size_t a, b; std::string steps; in >> a >> b >> steps;
      std::vector<std::string> ws; std::string w;
      while (in >> w) ws.push_back(w);
      for (size_t i = 0; i < models.size(); ++i)
        out << (i ? " ## " : "") << models[i].first << ": " << models[i].second->Partial(a, b, steps, ws);
    } else if (op == "s") {
      size_t a; in >> a;
      std::vector<std::string> ws; std::string w;
      while (in >> w) ws.push_back(w);
      for (size_t i = 0; i < models.size(); ++i)
        out << (i ? " ## " : "") << models[i].first << ": " << models[i].second->Sub(a, ws);
    } else {
      out << "bad-op";
    }
    puts(out.str().c_str());
    fflush(stdout);
  }
  for (size_t i = 0; i < models.size(); ++i) delete models[i].second;
  return 0;
}
