// C14 harness: the untyped virtual interface (lm::ngram::LoadVirtual -> lm::base::Model) and the typed
// model classes side by side, plus the real python/score_sentence.cc run through a *recording* model so
// that the words it looks up, the states it chains and the </s> it appends become observable.
//
// ops (stdin, one per line; one output line per op):
//   load <path>           -> ok type=<n> order=<k> bos=<id> eos=<id> unk=<id> statesize=<n> [VMISMATCH ...]
//   sent <hex|->          -> fast=<B|N|?>:<hexword>,...,E total=<f32 bits> direct=<f32 bits>
//   plan <driver line>    -> TT=<total bits>;<prob bits>/<len>/<oov>,...|TF=...|FT=...|FF=... [VMISMATCH ...]
//                            (folds the word lists of the driver's TT/TF/FT/FF fields)
//   forgot <hexword>,...  -> <prob bits>/<len>/<statelen> [VMISMATCH ...]   (last word given the others as context)
//   index <hex|->         -> <id>   (Index(StringPiece) with the full length)
#include "lm/model.hh"
#include "lm/binary_format.hh"
#include "lm/facade.hh"
#include "lm/virtual_interface.hh"
#include "lm/state.hh"
#include "python/score_sentence.hh"
#include "util/string_piece.hh"

#include <cstdio>
#include <cstring>
#include <iostream>
#include <sstream>
#include <string>
#include <vector>
#include <stdint.h>

using lm::WordIndex;
using lm::FullScoreReturn;
typedef lm::ngram::State KState;

static uint32_t Bits(float f) { uint32_t u; memcpy(&u, &f, 4); return u; }

static bool Unhex(const std::string &h, std::string &out) {
  out.clear();
  if (h == "-" || h == ".") return true;
  if (h.size() % 2) return false;
  for (size_t i = 0; i < h.size(); i += 2) {
    unsigned v;
    if (sscanf(h.substr(i, 2).c_str(), "%2x", &v) != 1) return false;
    out.push_back(static_cast<char>(v));
  }
  return true;
}
static std::string Hex(const StringPiece &s) {
  static const char *d = "0123456789abcdef";
  std::string o;
  for (const char *p = s.data(); p != s.data() + s.size(); ++p) {
    unsigned char c = static_cast<unsigned char>(*p);
    o.push_back(d[c >> 4]); o.push_back(d[c & 15]);
  }
  if (o.empty()) o = ".";
  return o;
}

// the meaningful part of a state: length, words[0..length), backoff[0..length) bitwise
static bool SameState(const KState &a, const KState &b) {
  if (a.length != b.length) return false;
  for (unsigned i = 0; i < a.length; ++i) {
    if (a.words[i] != b.words[i]) return false;
    if (Bits(a.backoff[i]) != Bits(b.backoff[i])) return false;
  }
  return true;
}
static bool SameRet(const FullScoreReturn &a, const FullScoreReturn &b) {
  if (Bits(a.prob) != Bits(b.prob) || a.ngram_length != b.ngram_length) return false;
  if (a.independent_left != b.independent_left) return false;
  if (!a.independent_left && a.extend_left != b.extend_left) return false;
  return Bits(a.rest) == Bits(b.rest);
}

// ---------------------------------------------------------------- recording model
struct Event { char kind; std::string arg; WordIndex id; };   // 'I' Index(arg)->id, 'S' BaseScore(id), 'F' BaseFullScore(id)
static std::vector<Event> g_events;
static bool g_chain_ok;
static bool g_have_prev;
static KState g_prev_out;
static KState g_first_in;
static bool g_have_first;

class RecVocab : public lm::base::Vocabulary {
  public:
    explicit RecVocab(const lm::base::Vocabulary &inner)
      : lm::base::Vocabulary(inner.BeginSentence(), inner.EndSentence(), inner.NotFound()), inner_(inner) {}
    WordIndex Index(const StringPiece &str) const {
      WordIndex r = inner_.Index(str);
      Event e; e.kind = 'I'; e.arg.assign(str.data(), str.size()); e.id = r;
      g_events.push_back(e);
      return r;
    }
  private:
    const lm::base::Vocabulary &inner_;
};

class RecModel : public lm::base::ModelFacade<RecModel, KState, RecVocab> {
  public:
    explicit RecModel(const lm::base::Model *inner) : inner_(inner), vocab_(inner->BaseVocabulary()) {
      KState b, n;
      memset(&b, 0, sizeof(b)); memset(&n, 0, sizeof(n));
      inner->BeginSentenceWrite(&b);
      inner->NullContextWrite(&n);
      Init(b, n, vocab_, inner->Order());
    }
    FullScoreReturn FullScore(const KState &in, const WordIndex w, KState &out) const {
      Note(in);
      FullScoreReturn r = inner_->BaseFullScore(&in, w, &out);
      g_prev_out = out; g_have_prev = true;
      Event e; e.kind = 'F'; e.id = w; g_events.push_back(e);
      return r;
    }
    float Score(const KState &in, const WordIndex w, KState &out) const {
      Note(in);
      float r = inner_->BaseScore(&in, w, &out);
      g_prev_out = out; g_have_prev = true;
      Event e; e.kind = 'S'; e.id = w; g_events.push_back(e);
      return r;
    }
    FullScoreReturn FullScoreForgotState(const WordIndex *b, const WordIndex *e, const WordIndex w, KState &out) const {
      return inner_->BaseFullScoreForgotState(b, e, w, &out);
    }
  private:
    void Note(const KState &in) const {
      if (!g_have_first) { g_first_in = in; g_have_first = true; }
      if (g_have_prev && !SameState(g_prev_out, in)) g_chain_ok = false;
    }
    const lm::base::Model *inner_;
    RecVocab vocab_;
};

// ---------------------------------------------------------------- typed side, type-erased by hand
struct TypedBase {
  virtual ~TypedBase() {}
  virtual FullScoreReturn FullScore(const KState &in, WordIndex w, KState &out) const = 0;
  virtual float Score(const KState &in, WordIndex w, KState &out) const = 0;
  virtual FullScoreReturn Forgot(const WordIndex *b, const WordIndex *e, WordIndex w, KState &out) const = 0;
  virtual const KState &Begin() const = 0;
  virtual const KState &Null() const = 0;
  virtual WordIndex Index(const StringPiece &s) const = 0;
  virtual WordIndex Bos() const = 0;
  virtual WordIndex Eos() const = 0;
  virtual WordIndex Unk() const = 0;
  virtual unsigned Order() const = 0;
  virtual size_t StateBytes() const = 0;
};
template <class M> struct TypedImpl : TypedBase {
  M m;
  TypedImpl(const char *f, const lm::ngram::Config &c) : m(f, c) {}
  FullScoreReturn FullScore(const KState &in, WordIndex w, KState &out) const { return m.FullScore(in, w, out); }
  float Score(const KState &in, WordIndex w, KState &out) const { return m.Score(in, w, out); }
  FullScoreReturn Forgot(const WordIndex *b, const WordIndex *e, WordIndex w, KState &out) const { return m.FullScoreForgotState(b, e, w, out); }
  const KState &Begin() const { return m.BeginSentenceState(); }
  const KState &Null() const { return m.NullContextState(); }
  WordIndex Index(const StringPiece &s) const { return m.GetVocabulary().Index(s); }
  WordIndex Bos() const { return m.GetVocabulary().BeginSentence(); }
  WordIndex Eos() const { return m.GetVocabulary().EndSentence(); }
  WordIndex Unk() const { return m.GetVocabulary().NotFound(); }
  unsigned Order() const { return m.Order(); }
  size_t StateBytes() const { return sizeof(typename M::State); }
};

static lm::base::Model *g_virtual = NULL;
static TypedBase *g_typed = NULL;
static RecModel *g_rec = NULL;

static std::string DoLoad(const std::string &path) {
  delete g_rec; g_rec = NULL;
  delete g_virtual; g_virtual = NULL;
  delete g_typed; g_typed = NULL;
  lm::ngram::Config config;
  config.messages = NULL;
  config.show_progress = false;
  lm::ngram::ModelType type = lm::ngram::PROBING;   // LoadVirtual's default for ARPA input
  lm::ngram::RecognizeBinary(path.c_str(), type);
  g_virtual = lm::ngram::LoadVirtual(path.c_str(), config);
  switch (type) {
    case lm::ngram::PROBING: g_typed = new TypedImpl<lm::ngram::ProbingModel>(path.c_str(), config); break;
    case lm::ngram::REST_PROBING: g_typed = new TypedImpl<lm::ngram::RestProbingModel>(path.c_str(), config); break;
    case lm::ngram::TRIE: g_typed = new TypedImpl<lm::ngram::TrieModel>(path.c_str(), config); break;
    case lm::ngram::QUANT_TRIE: g_typed = new TypedImpl<lm::ngram::QuantTrieModel>(path.c_str(), config); break;
    case lm::ngram::ARRAY_TRIE: g_typed = new TypedImpl<lm::ngram::ArrayTrieModel>(path.c_str(), config); break;
    case lm::ngram::QUANT_ARRAY_TRIE: g_typed = new TypedImpl<lm::ngram::QuantArrayTrieModel>(path.c_str(), config); break;
    default: return "error unknown-type";
  }
  g_rec = new RecModel(g_virtual);
  std::ostringstream o;
  const lm::base::Vocabulary &v = g_virtual->BaseVocabulary();
  o << "ok type=" << static_cast<int>(type) << " order=" << static_cast<unsigned>(g_virtual->Order())
    << " bos=" << v.BeginSentence() << " eos=" << v.EndSentence() << " unk=" << v.NotFound()
    << " statesize=" << g_virtual->StateSize();
  // facade identities on the constants
  KState b, n;
  memset(&b, 0, sizeof(b)); memset(&n, 0, sizeof(n));
  g_virtual->BeginSentenceWrite(&b);
  g_virtual->NullContextWrite(&n);
  if (g_virtual->StateSize() != g_typed->StateBytes()) o << " VMISMATCH statesize";
  if (g_virtual->Order() != g_typed->Order()) o << " VMISMATCH order";
  if (!SameState(b, g_typed->Begin())) o << " VMISMATCH begin-state";
  if (!SameState(n, g_typed->Null())) o << " VMISMATCH null-state";
  if (memcmp(g_virtual->BeginSentenceMemory(), &b, g_virtual->StateSize())) o << " VMISMATCH begin-memcpy";
  if (memcmp(g_virtual->NullContextMemory(), &n, g_virtual->StateSize())) o << " VMISMATCH null-memcpy";
  if (v.BeginSentence() != g_typed->Bos() || v.EndSentence() != g_typed->Eos() || v.NotFound() != g_typed->Unk()) o << " VMISMATCH specials";
  if (v.Index("<s>") != v.BeginSentence() || v.Index("</s>") != v.EndSentence() || v.Index("<unk>") != v.NotFound()) o << " VMISMATCH specials-by-name";
  return o.str();
}

static std::string DoSent(const std::string &hex) {
  std::string s;
  if (!Unhex(hex, s)) return "bad-op";
  g_events.clear(); g_chain_ok = true; g_have_prev = false; g_have_first = false;
  float total = lm::base::ScoreSentence(g_rec, s.c_str());        // std::string::c_str(): NUL-terminated, inner NULs kept
  std::vector<Event> ev;
  ev.swap(g_events);
  float direct = lm::base::ScoreSentence(g_virtual, s.c_str());
  std::ostringstream o;
  char start = '-';
  if (g_have_first) {
    bool isb = SameState(g_first_in, g_typed->Begin()), isn = SameState(g_first_in, g_typed->Null());
    start = isb ? 'B' : (isn ? 'N' : '?');
  }
  o << "fast=" << (g_chain_ok ? "" : "BROKENCHAIN ") << start << ":";
  // pair each score call with the Index call that produced its id
  bool first = true;
  const Event *pending = NULL;
  for (size_t i = 0; i < ev.size(); ++i) {
    const Event &e = ev[i];
    if (e.kind == 'I') {
      if (pending) { o << (first ? "" : ",") << "UNUSED-INDEX"; first = false; }
      pending = &e;
    } else {
      o << (first ? "" : ",");
      first = false;
      if (e.kind == 'F') o << "F!";
      if (pending) {
        if (pending->id != e.id) o << "WRONGID!";
        o << Hex(pending->arg);
        pending = NULL;
      } else if (e.id == g_virtual->BaseVocabulary().EndSentence()) {
        o << "E";
      } else {
        o << "ID" << e.id;
      }
    }
  }
  if (pending) o << (first ? "" : ",") << "UNUSED-INDEX";
  o << " total=" << Bits(total) << " direct=" << Bits(direct);
  return o.str();
}

static std::vector<std::string> Split(const std::string &s, char c) {
  std::vector<std::string> out;
  size_t b = 0;
  while (true) {
    size_t e = s.find(c, b);
    if (e == std::string::npos) { out.push_back(s.substr(b)); break; }
    out.push_back(s.substr(b, e - b));
    b = e + 1;
  }
  return out;
}

// fold one plan field "B:hex,hex,E" (or "-:")
static std::string FoldPlan(const std::string &field, std::string &mismatch) {
  size_t colon = field.find(':');
  if (colon == std::string::npos) return "bad-plan";
  std::string startk = field.substr(0, colon), rest = field.substr(colon + 1);
  std::vector<std::string> words;
  if (!rest.empty()) words = Split(rest, ',');
  KState tin, tout, tsin, tsout;
  KState vin, vout, vsin, vsout;
  memset(&tin, 0, sizeof(tin)); memset(&tout, 0, sizeof(tout)); memset(&tsin, 0, sizeof(tin)); memset(&tsout, 0, sizeof(tin));
  memset(&vin, 0, sizeof(tin)); memset(&vout, 0, sizeof(tin)); memset(&vsin, 0, sizeof(tin)); memset(&vsout, 0, sizeof(tin));
  bool null_start = (startk == "N");
  if (startk == "-" && !words.empty()) return "bad-plan";
  tin = null_start ? g_typed->Null() : g_typed->Begin();
  tsin = tin;
  if (null_start) { g_virtual->NullContextWrite(&vin); g_virtual->NullContextWrite(&vsin); }
  else { g_virtual->BeginSentenceWrite(&vin); g_virtual->BeginSentenceWrite(&vsin); }
  float ttotal = 0.0f, vtotal = 0.0f, tstotal = 0.0f, vstotal = 0.0f;
  std::ostringstream o;
  std::ostringstream per;
  for (size_t i = 0; i < words.size(); ++i) {
    WordIndex tw, vw;
    std::string w;
    if (words[i] == "E") {
      tw = g_typed->Eos(); vw = g_virtual->BaseVocabulary().EndSentence();
    } else {
      if (!Unhex(words[i], w)) return "bad-plan";
      tw = g_typed->Index(w); vw = g_virtual->BaseVocabulary().Index(StringPiece(w));
    }
    if (tw != vw) mismatch += " index@" + words[i];
    FullScoreReturn tr = g_typed->FullScore(tin, tw, tout);
    FullScoreReturn vr = g_virtual->BaseFullScore(&vin, vw, &vout);
    float ts = g_typed->Score(tsin, tw, tsout);
    float vs = g_virtual->BaseScore(&vsin, vw, &vsout);
    if (!SameRet(tr, vr)) mismatch += " fullscore@" + words[i];
    if (!SameState(tout, vout)) mismatch += " state@" + words[i];
    if (Bits(ts) != Bits(vs) || Bits(ts) != Bits(tr.prob)) mismatch += " score@" + words[i];
    if (!SameState(tsout, vsout) || !SameState(tsout, tout)) mismatch += " scorestate@" + words[i];
    ttotal += tr.prob; vtotal += vr.prob; tstotal += ts; vstotal += vs;
    per << (i ? "," : "") << Bits(tr.prob) << "/" << static_cast<unsigned>(tr.ngram_length) << "/" << (tw == g_typed->Unk() ? 1 : 0);
    tin = tout; vin = vout; tsin = tsout; vsin = vsout;
  }
  if (Bits(ttotal) != Bits(vtotal) || Bits(ttotal) != Bits(tstotal) || Bits(ttotal) != Bits(vstotal)) mismatch += " total";
  o << Bits(ttotal) << ";" << per.str();
  return o.str();
}

static std::string DoPlan(const std::string &line) {
  std::vector<std::string> fields = Split(line, '|');
  std::ostringstream o;
  std::string mismatch;
  bool first = true;
  for (size_t i = 0; i < fields.size(); ++i) {
    const std::string &f = fields[i];
    size_t eq = f.find('=');
    if (eq == std::string::npos) continue;
    std::string name = f.substr(0, eq);
    if (name != "TT" && name != "TF" && name != "FT" && name != "FF" && name != "fast") continue;
    std::string mm;
    std::string r = FoldPlan(f.substr(eq + 1), mm);
    o << (first ? "" : "|") << name << "=" << r;
    first = false;
    if (!mm.empty()) mismatch += " [" + name + mm + "]";
  }
  if (!mismatch.empty()) o << " VMISMATCH" << mismatch;
  return o.str();
}

static std::string DoForgot(const std::string &arg) {
  std::vector<std::string> hw = Split(arg, ',');
  std::vector<WordIndex> ids;
  for (size_t i = 0; i < hw.size(); ++i) {
    std::string w;
    if (!Unhex(hw[i], w)) return "bad-op";
    ids.push_back(g_typed->Index(w));
  }
  if (ids.empty()) return "bad-op";
  WordIndex last = ids.back();
  ids.pop_back();
  std::vector<WordIndex> rev(ids.rbegin(), ids.rend());    // context in reverse order
  KState tout, vout;
  memset(&tout, 0, sizeof(tout)); memset(&vout, 0, sizeof(vout));
  const WordIndex *b = rev.empty() ? NULL : &rev[0];
  FullScoreReturn tr = g_typed->Forgot(b, b + rev.size(), last, tout);
  FullScoreReturn vr = g_virtual->BaseFullScoreForgotState(b, b + rev.size(), last, &vout);
  std::ostringstream o;
  o << Bits(tr.prob) << "/" << static_cast<unsigned>(tr.ngram_length) << "/" << static_cast<unsigned>(tout.length);
  if (!SameRet(tr, vr)) o << " VMISMATCH forgot-ret";
  if (!SameState(tout, vout)) o << " VMISMATCH forgot-state";
  return o.str();
}

int main() {
  std::string line;
  while (std::getline(std::cin, line)) {
    std::string op = line, arg;
    size_t sp = line.find(' ');
    if (sp != std::string::npos) { op = line.substr(0, sp); arg = line.substr(sp + 1); }
    std::string out;
    try {
      if (op == "load") out = DoLoad(arg);
      else if (!g_virtual) out = "error no-model";
      else if (op == "sent") out = DoSent(arg);
      else if (op == "plan") out = DoPlan(arg);
      else if (op == "forgot") out = DoForgot(arg);
      else if (op == "index") {
        std::string w;
        if (!Unhex(arg, w)) out = "bad-op";
        else {
          std::ostringstream o;
          WordIndex a = g_typed->Index(w), b = g_virtual->BaseVocabulary().Index(StringPiece(w));
          o << a;
          if (a != b) o << " VMISMATCH index";
          out = o.str();
        }
      } else out = "bad-op";
    } catch (const std::exception &e) {
      std::string m = e.what();
      for (size_t i = 0; i < m.size(); ++i) if (m[i] == '\n') m[i] = ' ';
      out = "error exception " + m.substr(0, 200);
    }
    std::cout << out << "\n";
  }
  std::cout.flush();
  return 0;
}
