// C17 harness: cooperative scheduler driving the real util::PCQueue / util::stream::Chain /
// util::ThreadPool through the KPU_KENLM_VERIF scheduling points (hooks H1/H2).
//
// Every managed thread parks at each parking point; the controller (main thread) releases exactly
// one thread at a time following the schedule of the op line, consulting a shadow of the semaphore
// counters / mutex owners (maintained from the hook events only) so that it never releases a thread
// into an operation that would block.  A released thread that does not reach its next parking point
// within the watchdog time is reported as `stuck` together with the trace so far.
//
// Ops (stdin, one per line; output one trace line per op, same grammar as lean/Driver/C17.lean):
//   pcq <cap> <prods> <quotas> <sched>
//   chain <blocks> <workers> <sched>       (see Driver)
//   pool <queue> <workers> <requests> <sched>
//   hooks                                   -> "hooks 1" / "hooks 0"
// Without the hooks in the tree the harness degrades to free-running stress runs: the trace is
// just `FREE END <status> F <final values>` (property oracle only).
#include "util/pcqueue.hh"
#include "util/thread_pool.hh"
#include "util/stream/chain.hh"
#include "util/stream/stream.hh"
#include "util/stream/config.hh"
#include "util/stream/block.hh"

#include <chrono>
#include <condition_variable>
#include <cstdio>
#include <cstdlib>
#include <cstring>
#include <iostream>
#include <map>
#include <mutex>
#include <sstream>
#include <string>
#include <thread>
#include <unistd.h>
#include <pthread.h>
#include <signal.h>
#include <vector>

#ifdef KPU_KENLM_VERIF_POINT
#define HAVE_HOOKS 1
#else
#define HAVE_HOOKS 0
#endif

namespace {

// ---------------------------------------------------------------- parsing helpers
std::vector<std::string> Split(const std::string &s, char sep) {
  std::vector<std::string> out;
  if (s == "-") return out;
  std::string cur;
  for (size_t i = 0; i < s.size(); ++i) {
    if (s[i] == sep) { if (!cur.empty()) out.push_back(cur); cur.clear(); }
    else cur += s[i];
  }
  if (!cur.empty()) out.push_back(cur);
  return out;
}
std::vector<long> Nats(const std::string &s) {
  std::vector<long> out;
  std::vector<std::string> p = Split(s, ',');
  for (size_t i = 0; i < p.size(); ++i) out.push_back(atol(p[i].c_str()));
  return out;
}
std::string Join(const std::vector<long> &v) {
  std::ostringstream o;
  for (size_t i = 0; i < v.size(); ++i) { if (i) o << ','; o << v[i]; }
  return o.str();
}

int WatchdogMs() {
  const char *e = getenv("C17_WATCHDOG_MS");
  return e ? atoi(e) : 20000;
}

#if HAVE_HOOKS
using namespace util::verif;

enum { RUNNING = 0, PARKED = 1, FINISHED = 2 };

struct TS {
  int state;
  int point;
  const void *obj;
  bool go;
  TS() : state(RUNNING), point(0), obj(0), go(false) {}
};

struct QShadow {
  long empty, used;
  int pm, cm;
  long wbody, rbody;
  int index;
};

struct Sched {
  std::mutex m;
  std::condition_variable cv;
  std::vector<TS> th;
  std::map<const void *, QShadow> q;
  std::vector<const void *> qorder;
  std::map<const void *, int> thread_of_obj;
  long default_cap;
  bool active;
  bool coarse;        // park only before whole queue operations (ThreadPool / Chain runs)
  volatile bool freerun;  // after a probe: every thread runs freely to the end
  Sched() : default_cap(1), active(false), coarse(false), freerun(false) {}
};

Sched G;
thread_local int my_tid = -1;

QShadow &Q(const void *obj) {
  std::map<const void *, QShadow>::iterator i = G.q.find(obj);
  if (i != G.q.end()) return i->second;
  QShadow s;
  s.empty = G.default_cap; s.used = 0; s.pm = -1; s.cm = -1; s.wbody = 0; s.rbody = 0;
  s.index = (int)G.qorder.size();
  G.qorder.push_back(obj);
  return G.q.insert(std::make_pair(obj, s)).first->second;
}

bool Parking(int id) {
  if (G.coarse) {
    return id == kProduceBeforeWait || id == kConsumeBeforeWait || id == kThreadStart || id == kThreadBeforeJoin;
  }
  switch (id) {
    case kProduceBeforeWait: case kProduceBeforeLock: case kProduceAfterLock:
    case kProduceBeforeUnlock: case kProduceAfterUnlock:
    case kConsumeBeforeWait: case kConsumeBeforeLock: case kConsumeAfterLock:
    case kConsumeBeforeUnlock: case kConsumeAfterUnlock:
    case kThreadStart: case kThreadBeforeJoin:
      return true;
    default:
      return false;
  }
}

// called with G.m held
void Park(std::unique_lock<std::mutex> &l, int id, const void *obj) {
  TS &t = G.th[my_tid];
  t.state = PARKED; t.point = id; t.obj = obj;
  G.cv.notify_all();
  int me = my_tid;
  G.cv.wait(l, [me] { return G.th[me].go || G.freerun; });
  G.th[me].go = false;
  G.th[me].state = RUNNING;
}

void Hook(int id, const void *obj) {
  if (!G.active || G.freerun) return;
  std::unique_lock<std::mutex> l(G.m);
  if (G.freerun) return;
  if (id == kThreadStart && my_tid < 0) {
    my_tid = (int)G.th.size();
    G.th.push_back(TS());
    G.thread_of_obj[obj] = my_tid;
    Park(l, id, obj);
    return;
  }
  if (my_tid < 0) return;
  switch (id) {
    case kThreadSpawned: {
      // wait (real time) until the child has registered and parked at its start point
      G.cv.wait(l, [obj] {
        std::map<const void *, int>::iterator i = G.thread_of_obj.find(obj);
        return i != G.thread_of_obj.end() && G.th[i->second].state != RUNNING;
      });
      return;
    }
    case kProduceAfterWait: --Q(obj).empty; break;
    case kConsumeAfterWait: --Q(obj).used; break;
    case kProduceAfterLock: Q(obj).pm = my_tid; break;
    case kConsumeAfterLock: Q(obj).cm = my_tid; break;
    case kProduceBeforeUnlock: ++Q(obj).wbody; break;
    case kConsumeBeforeUnlock: ++Q(obj).rbody; break;
    case kProduceAfterUnlock: Q(obj).pm = -1; break;
    case kConsumeAfterUnlock: Q(obj).cm = -1; break;
    case kProduceAfterPost: ++Q(obj).used; break;
    case kConsumeAfterPost: ++Q(obj).empty; break;
    case kProduceUndoAfterPost: ++Q(obj).empty; Q(obj).pm = -1; break;
    case kConsumeUndoAfterPost: ++Q(obj).used; Q(obj).cm = -1; break;
    case kThreadEnd: {
      G.th[my_tid].state = FINISHED;
      G.th[my_tid].point = id;
      my_tid = -1;
      G.cv.notify_all();
      return;
    }
    default: break;
  }
  if (Parking(id)) Park(l, id, obj);
}

// thread created by the harness itself
void ManagedBegin(int tid) {
  my_tid = tid;
}
void ManagedEnd() {
  std::unique_lock<std::mutex> l(G.m);
  G.th[my_tid].state = FINISHED;
  G.th[my_tid].point = 0;
  my_tid = -1;
  G.cv.notify_all();
}

// with G.m held
bool Enabled(int t) {
  const TS &s = G.th[t];
  if (s.state != PARKED) return false;
  switch (s.point) {
    case kProduceBeforeWait: return Q(s.obj).empty > 0;
    case kConsumeBeforeWait: return Q(s.obj).used > 0;
    case kProduceBeforeLock: return Q(s.obj).pm == -1;
    case kConsumeBeforeLock: return Q(s.obj).cm == -1;
    case kThreadBeforeJoin: {
      std::map<const void *, int>::iterator i = G.thread_of_obj.find(s.obj);
      return i != G.thread_of_obj.end() && G.th[i->second].state == FINISHED;
    }
    default: return true;
  }
}
std::vector<long> EnabledSet() {
  std::vector<long> out;
  for (size_t t = 0; t < G.th.size(); ++t) if (Enabled((int)t)) out.push_back((long)t);
  return out;
}
char PcChar(int t) {
  const TS &s = G.th[t];
  if (s.state == FINISHED) return 'd';
  switch (s.point) {
    case kProduceBeforeWait: case kConsumeBeforeWait: return 'w';
    case kProduceBeforeLock: case kConsumeBeforeLock: return 'l';
    case kProduceAfterLock: case kConsumeAfterLock: return 'b';
    case kProduceBeforeUnlock: case kConsumeBeforeUnlock: return 'u';
    case kProduceAfterUnlock: case kConsumeAfterUnlock: return 'p';
    case kThreadStart: return 's';
    case kThreadBeforeJoin: return 'j';
    default: return '?';
  }
}

struct Stuck {};

// Release thread t and wait until it parks again or finishes.  With G.m held.
void Release(std::unique_lock<std::mutex> &l, int t) {
  G.th[t].go = true;
  G.th[t].state = RUNNING;
  G.cv.notify_all();
  bool ok = G.cv.wait_for(l, std::chrono::milliseconds(WatchdogMs()),
                          [t] { return G.th[t].state != RUNNING; });
  if (!ok) throw Stuck();
}

// wait until every registered thread is parked or finished
void Settle(std::unique_lock<std::mutex> &l, size_t expect_threads) {
  bool ok = G.cv.wait_for(l, std::chrono::milliseconds(WatchdogMs()), [expect_threads] {
    if (G.th.size() < expect_threads) return false;
    for (size_t i = 0; i < G.th.size(); ++i) if (G.th[i].state == RUNNING) return false;
    return true;
  });
  if (!ok) throw Stuck();
}

void ResetSched(long default_cap) {
  G.th.clear(); G.q.clear(); G.qorder.clear(); G.thread_of_obj.clear();
  G.default_cap = default_cap; G.coarse = false; G.freerun = false;
}
#endif  // HAVE_HOOKS


// ---------------------------------------------------------------- free-running (non-driven) mode
// Threads run under the OS scheduler.  With hooks: every point may inject a seeded random yield/sleep
// (schedule perturbation) and the critical-section order is recorded at the *BeforeUnlock points.
struct FreeState {
  std::mutex m;
  bool active;
  bool record;
  int perturb;            // percent of points that delay
  std::vector<long> order;  // tids in critical-section order ("u" events)
  std::vector<long> occ;    // writes - reads recorded after each event
  long w, r;
  FreeState() : active(false), record(false), perturb(0), w(0), r(0) {}
};
FreeState F;
thread_local int free_tid = -1;
thread_local unsigned free_rng = 1;

#if HAVE_HOOKS
void FreeHook(int id, const void *) {
  if (!F.active || free_tid < 0) return;
  if (F.record && (id == util::verif::kProduceBeforeUnlock || id == util::verif::kConsumeBeforeUnlock)) {
    std::unique_lock<std::mutex> l(F.m);
    if (id == util::verif::kProduceBeforeUnlock) ++F.w; else ++F.r;
    F.order.push_back(free_tid);
    F.occ.push_back(F.w - F.r);
  }
  if (F.perturb) {
    free_rng ^= free_rng << 13; free_rng ^= free_rng >> 17; free_rng ^= free_rng << 5;
    if ((int)(free_rng % 100) < F.perturb) {
      if (free_rng & 0x100) std::this_thread::yield();
      else usleep((free_rng >> 9) % 60);
    }
  }
}
void Dispatch(int id, const void *obj) {
  if (F.active) FreeHook(id, obj); else Hook(id, obj);
}
#endif


// ---------------------------------------------------------------- element type with injectable copy failure
// PCQueue promises the strong exception guarantee if T::operator= throws.  Elem::operator= throws CopyFail when the
// calling thread's fail control says so: driven mode = the listed attempt numbers of this thread (an attempt = one
// operator= executed by the thread, i.e. one critical-section body), free mode = with probability fail_pct.
struct CopyFail {};
struct FailCtl {
  const std::vector<long> *fail_at;
  long attempt;
  int fail_pct;
  unsigned rng;
  FailCtl() : fail_at(0), attempt(0), fail_pct(0), rng(1) {}
};
thread_local FailCtl fail_ctl;
struct Elem {
  long v;
  Elem() : v(-1) {}
  explicit Elem(long x) : v(x) {}
  Elem(const Elem &o) : v(o.v) {}
  Elem &operator=(const Elem &o) {
    FailCtl &f = fail_ctl;
    long a = f.attempt++;
    if (f.fail_at) {
      for (size_t i = 0; i < f.fail_at->size(); ++i) if ((*f.fail_at)[i] == a) throw CopyFail();
    }
    if (f.fail_pct) {
      f.rng ^= f.rng << 13; f.rng ^= f.rng >> 17; f.rng ^= f.rng << 5;
      if ((int)(f.rng % 100) < f.fail_pct) throw CopyFail();
    }
    v = o.v;
    return *this;
  }
};
void ProduceRetry(util::PCQueue<Elem> &queue, long v) {
  Elem e(v);
  while (true) {
    try { queue.Produce(e); return; } catch (const CopyFail &) {}   // the caller retries the same value
  }
}
long ConsumeRetry(util::PCQueue<Elem> &queue) {
  while (true) {
    // the by-value overload (used by Chain::Wait, RecyclingThreadPool): it runs Consume(T&) inside, so both are covered
    try { return queue.Consume().v; } catch (const CopyFail &) {}
  }
}

// ---------------------------------------------------------------- PCQueue case
struct PcqCase {
  long cap;
  std::vector<std::vector<long> > prods;
  std::vector<long> quotas;
  std::vector<long> sched;
  std::vector<std::vector<long> > fails;   // per thread: attempt numbers whose copy throws
  long probe;   // -2: none; -1: lowest blocked thread; >= 0: that thread
  PcqCase() : cap(1), probe(-2) {}
};

std::string FinalLine(size_t first_cons, const std::vector<std::vector<long> > &got) {
  std::ostringstream o;
  for (size_t c = 0; c < got.size(); ++c) {
    if (c) o << ';';
    o << (first_cons + c) << ':' << Join(got[c]);
  }
  return o.str();
}

void Die(const std::string &line) {
  // threads may be blocked inside real semaphores: print what we have and leave without unwinding
  std::cout << line << std::endl;
  std::cout.flush();
  _exit(3);
}

std::string RunPcq(const PcqCase &c) {
  const size_t P = c.prods.size(), C = c.quotas.size();
  util::PCQueue<Elem> queue(c.cap);
  std::vector<std::vector<long> > got(C);
  std::vector<std::thread> threads;
  std::ostringstream out;
#if HAVE_HOOKS
  {
    std::unique_lock<std::mutex> l(G.m);
    ResetSched(c.cap);
    G.th.resize(P + C);
    Q(&queue);
    G.active = true;
  }
  for (size_t p = 0; p < P; ++p) {
    threads.push_back(std::thread([&, p] {
      ManagedBegin((int)p);
      fail_ctl = FailCtl();
      if (p < c.fails.size()) fail_ctl.fail_at = &c.fails[p];
      for (size_t i = 0; i < c.prods[p].size(); ++i) ProduceRetry(queue, c.prods[p][i]);
      ManagedEnd();
    }));
  }
  for (size_t k = 0; k < C; ++k) {
    threads.push_back(std::thread([&, k] {
      ManagedBegin((int)(P + k));
      fail_ctl = FailCtl();
      if (P + k < c.fails.size()) fail_ctl.fail_at = &c.fails[P + k];
      for (long i = 0; i < c.quotas[k]; ++i) {
        long v = ConsumeRetry(queue);
        got[k].push_back(v);   // only this thread writes got[k]; read by the controller while parked
      }
      ManagedEnd();
    }));
  }
  std::unique_lock<std::mutex> l(G.m);
  try {
    Settle(l, P + C);
    out << "I/" << Join(EnabledSet());
    size_t si = 0;
    while (true) {
      int t;
      if (si < c.sched.size()) {
        t = (int)c.sched[si++];
        if (t < 0 || t >= (int)G.th.size() || !Enabled(t)) { out << " x" << t; continue; }
      } else {
        if (c.probe != -2) break;
        std::vector<long> en = EnabledSet();
        if (en.empty()) break;
        t = (int)en[0];
      }
      bool returns = G.th[t].point == kConsumeAfterUnlock;
      Release(l, t);
      out << ' ' << t << PcChar(t);
      if (returns) out << '=' << got[t - P].back();
      QShadow &qs = Q(&queue);
      out << '/' << Join(EnabledSet()) << '/' << (qs.wbody - qs.rbody);
    }
    if (c.probe != -2) {
      // Probe: release a thread that the shadow says is blocked and expect it NOT to arrive anywhere.
      int t = (int)c.probe;
      if (t == -1) {
        for (size_t i = 0; i < G.th.size(); ++i)
          if (G.th[i].state == PARKED && !Enabled((int)i)) { t = (int)i; break; }
      }
      if (t < 0 || t >= (int)G.th.size() || G.th[t].state != PARKED || Enabled(t)) {
        out << " P" << t << "=na";
      } else {
        const char *e = getenv("C17_PROBE_MS");
        int ms = e ? atoi(e) : 60;
        G.th[t].go = true;
        G.th[t].state = RUNNING;
        G.cv.notify_all();
        bool arrived = G.cv.wait_for(l, std::chrono::milliseconds(ms / 2), [t] { return G.th[t].state != RUNNING; });
        if (!arrived) {
          // the thread now sits in the real sem_wait / mutex lock: interrupt it with signals (EINTR); it must stay there
          pthread_t h = threads[t].native_handle();
          for (int k = 0; k < 3 && !arrived; ++k) {
            pthread_kill(h, SIGUSR1);
            arrived = G.cv.wait_for(l, std::chrono::milliseconds(3), [t] { return G.th[t].state != RUNNING; });
          }
          if (!arrived)
            arrived = G.cv.wait_for(l, std::chrono::milliseconds(ms / 2), [t] { return G.th[t].state != RUNNING; });
        }
        out << " P" << t << (arrived ? "=passed" : "=blocked");
      }
      // let everything run to completion under the OS scheduler
      G.freerun = true;
      G.cv.notify_all();
      bool ok = G.cv.wait_for(l, std::chrono::milliseconds(WatchdogMs()), [] {
        for (size_t i = 0; i < G.th.size(); ++i) if (G.th[i].state != FINISHED) return false;
        return true;
      });
      if (!ok) throw Stuck();
    }
  } catch (Stuck &) {
    out << " END stuck F -";
    Die(out.str());
  }
  bool all = true;
  for (size_t i = 0; i < G.th.size(); ++i) if (G.th[i].state != FINISHED) all = false;
  out << " END " << (all ? "ok" : "deadlock") << " F " << FinalLine(P, got);
  if (!all) Die(out.str());
  G.active = false;
  l.unlock();
  for (size_t i = 0; i < threads.size(); ++i) threads[i].join();
#else
  out << "bad-op (no hooks)";
#endif
  return out.str();
}


std::string RunPcqFree(const PcqCase &c, unsigned seed, int perturb, bool record, int signals, int failpct) {
  const size_t P = c.prods.size(), C = c.quotas.size();
  util::PCQueue<Elem> queue(c.cap);
  std::vector<std::vector<long> > got(C);
  std::vector<std::thread> threads;
  std::ostringstream out;
  std::mutex fm; std::condition_variable fcv; size_t finished = 0;
  F.order.clear(); F.occ.clear(); F.w = 0; F.r = 0;
  F.perturb = perturb; F.record = record; F.active = true;
  for (size_t p = 0; p < P; ++p) {
    threads.push_back(std::thread([&, p] {
      free_tid = (int)p; free_rng = seed * 2654435761u + 97u * (unsigned)p + 1u;
      fail_ctl = FailCtl(); fail_ctl.fail_pct = failpct; fail_ctl.rng = seed * 7919u + 31u * (unsigned)p + 3u;
      for (size_t i = 0; i < c.prods[p].size(); ++i) ProduceRetry(queue, c.prods[p][i]);
      free_tid = -1;
      std::unique_lock<std::mutex> l(fm); ++finished; fcv.notify_all();
    }));
  }
  for (size_t k = 0; k < C; ++k) {
    threads.push_back(std::thread([&, k] {
      free_tid = (int)(P + k); free_rng = seed * 2654435761u + 97u * (unsigned)(P + k) + 1u;
      fail_ctl = FailCtl(); fail_ctl.fail_pct = failpct; fail_ctl.rng = seed * 7919u + 31u * (unsigned)(P + k) + 3u;
      for (long i = 0; i < c.quotas[k]; ++i) got[k].push_back(ConsumeRetry(queue));
      free_tid = -1;
      std::unique_lock<std::mutex> l(fm); ++finished; fcv.notify_all();
    }));
  }
  // signaller: SIGUSR1 (no SA_RESTART) to random threads at random moments until everybody has finished
  std::thread signaller;
  if (signals > 0) {
    signaller = std::thread([&] {
      unsigned r = seed * 40503u + 12345u;
      while (true) {
        {
          std::unique_lock<std::mutex> l(fm);
          if (finished == P + C) return;
        }
        r ^= r << 13; r ^= r >> 17; r ^= r << 5;
        pthread_kill(threads[r % (P + C)].native_handle(), SIGUSR1);
        usleep(20 + (r >> 8) % (unsigned)signals);
      }
    });
  }
  {
    std::unique_lock<std::mutex> l(fm);
    bool ok = fcv.wait_for(l, std::chrono::milliseconds(WatchdogMs()), [&] { return finished == P + C; });
    if (!ok) {
      // got[] may still be written by running threads: report only the status
      Die("FREE END stuck F -");
    }
  }
  if (signaller.joinable()) signaller.join();
  for (size_t i = 0; i < threads.size(); ++i) threads[i].join();
  F.active = false;
  out << "FREE";
  for (size_t i = 0; i < F.order.size(); ++i) out << ' ' << F.order[i] << "u//" << F.occ[i];
  out << " END ok F " << FinalLine(P, got);
  return out.str();
}


#if HAVE_HOOKS
// ---------------------------------------------------------------- ThreadPool / Chain cases (operation granularity)
// generic controller loop: token = <tid><pc>/<enabled>
std::string Drive(std::unique_lock<std::mutex> &l, const std::vector<long> &sched, size_t initial_threads) {
  std::ostringstream out;
  try {
    Settle(l, initial_threads);
    out << "I/" << Join(EnabledSet());
    size_t si = 0;
    while (true) {
      int t;
      if (si < sched.size()) {
        t = (int)sched[si++];
        if (t < 0 || t >= (int)G.th.size() || !Enabled(t)) { out << " x" << t; continue; }
      } else {
        std::vector<long> en = EnabledSet();
        if (en.empty()) break;
        t = (int)en[0];
      }
      Release(l, t);
      out << ' ' << t << PcChar(t) << '/' << Join(EnabledSet());
    }
  } catch (Stuck &) {
    out << " END stuck F -";
    Die(out.str());
  }
  bool all = true;
  for (size_t i = 0; i < G.th.size(); ++i) if (G.th[i].state != FINISHED) all = false;
  out << " END " << (all ? "ok" : "deadlock") << " F ";
  if (!all) { out << "-"; Die(out.str()); }
  return out.str();
}

struct PoolResults { std::vector<std::vector<long> > handled; };
struct PoolHandler {
  typedef long Request;
  PoolHandler(PoolResults *r) : r_(r) {}   // implicit: Worker builds boost::optional<Handler>(construct)
  void operator()(long request) {
    // each worker thread only touches its own slot; the controller reads while everybody is parked
    r_->handled[my_tid - 1].push_back(request);
  }
  PoolResults *r_;
};

std::string RunPool(long cap, long workers, const std::vector<long> &requests, const std::vector<long> &sched) {
  PoolResults results;
  results.handled.resize(workers);
  {
    std::unique_lock<std::mutex> l(G.m);
    ResetSched(cap);
    G.coarse = true;
    G.th.resize(1);
    G.active = true;
  }
  std::thread main_thread([&] {
    ManagedBegin(0);
    {
      util::ThreadPool<PoolHandler> pool(cap, workers, &results, -1L);
      for (size_t i = 0; i < requests.size(); ++i) pool.Produce(requests[i]);
    }
    ManagedEnd();
  });
  std::unique_lock<std::mutex> l(G.m);
  std::string trace = Drive(l, sched, 1 + workers);
  G.active = false;
  l.unlock();
  main_thread.join();
  std::ostringstream out;
  out << trace;
  for (long w = 0; w < workers; ++w) { if (w) out << ';'; out << (w + 1) << ':' << Join(results.handled[w]); }
  return out.str();
}

struct ChainResults { std::vector<std::vector<long> > seen; };

struct SourceWorker {
  SourceWorker(const std::vector<long> *data) : data_(data) {}
  void Run(const util::stream::ChainPosition &position) {
    size_t i = 0;
    for (util::stream::Link l(position); l; ++l) {
      if (i == data_->size()) { l.Poison(); break; }
      *static_cast<uint64_t *>(l->Get()) = (uint64_t)(*data_)[i++];
      l->SetValidSize(sizeof(uint64_t));
    }
  }
  const std::vector<long> *data_;
};
struct PassWorker {
  PassWorker(ChainResults *r, int stage) : r_(r), stage_(stage) {}
  void Run(const util::stream::ChainPosition &position) {
    for (util::stream::Link l(position); l; ++l) {
      uint64_t *p = static_cast<uint64_t *>(l->Get());
      r_->seen[stage_].push_back((long)*p);
      *p = *p * 10 + (uint64_t)stage_;
    }
  }
  ChainResults *r_;
  int stage_;
};

std::string RunChain(long b, long m, const std::vector<long> &data, const std::vector<long> &sched) {
  ChainResults results;
  results.seen.resize(m + 2);
  {
    std::unique_lock<std::mutex> l(G.m);
    ResetSched(b);
    G.coarse = true;
    G.th.resize(1);
    G.active = true;
  }
  std::thread main_thread([&] {
    ManagedBegin(0);
    {
      util::stream::ChainConfig config(sizeof(uint64_t), b, sizeof(uint64_t) * b);
      util::stream::Chain chain(config);
      chain >> SourceWorker(&data);
      for (long j = 2; j <= m; ++j) chain >> PassWorker(&results, (int)j);
      chain.Wait();
    }
    ManagedEnd();
  });
  std::unique_lock<std::mutex> l(G.m);
  std::string trace = Drive(l, sched, 1);
  G.active = false;
  l.unlock();
  main_thread.join();
  std::ostringstream out;
  out << trace;
  for (long j = 2; j <= m; ++j) { if (j > 2) out << ';'; out << j << ':' << Join(results.seen[j]); }
  return out.str();
}
// ---------------------------------------------------------------- Stream over a chain with empty blocks
// schain <b> <recs_per_block> <blocks> <sched>
//   <blocks>: ';'-separated blocks, each a ','-separated list of non-zero records; "0" = an empty block.
//   source (thread 1) emits the blocks; the in-place filter (thread 2, Link based) drops the negative records,
//   compacts and calls SetValidSize(kept); the reader (thread 3) is a util::stream::Stream; then the Recycler.
struct BlockSource {
  BlockSource(const std::vector<std::vector<long> > *blocks) : blocks_(blocks) {}
  void Run(const util::stream::ChainPosition &position) {
    size_t i = 0;
    for (util::stream::Link l(position); l; ++l) {
      if (i == blocks_->size()) { l.Poison(); break; }
      int64_t *p = static_cast<int64_t *>(l->Get());
      const std::vector<long> &b = (*blocks_)[i++];
      for (size_t k = 0; k < b.size(); ++k) p[k] = b[k];
      l->SetValidSize(b.size() * sizeof(int64_t));
    }
  }
  const std::vector<std::vector<long> > *blocks_;
};
struct InPlaceFilter {
  void Run(const util::stream::ChainPosition &position) {
    for (util::stream::Link l(position); l; ++l) {
      int64_t *p = static_cast<int64_t *>(l->Get());
      size_t n = l->ValidSize() / sizeof(int64_t), kept = 0;
      for (size_t k = 0; k < n; ++k) if (p[k] > 0) p[kept++] = p[k];
      l->SetValidSize(kept * sizeof(int64_t));
    }
  }
};
struct StreamReader {
  StreamReader(std::vector<long> *seen) : seen_(seen) {}
  void Run(const util::stream::ChainPosition &position) {
    for (util::stream::Stream s(position); s; ++s) {
      seen_->push_back((long)*static_cast<const int64_t *>(s.Get()));
      if (seen_->size() > 100000) abort();   // runaway reader
    }
  }
  std::vector<long> *seen_;
};

// smain: the Stream is attached in the calling thread (`chain >> stream >> kRecycle`, then the caller iterates),
// the public pattern of stream.hh / sort.hh.  Stream::Init runs before the Recycler exists.
std::string RunStreamMain(long b, long recs, const std::vector<std::vector<long> > &blocks,
                          const std::vector<long> &sched) {
  std::vector<long> seen;
  {
    std::unique_lock<std::mutex> l(G.m);
    ResetSched(b);
    G.coarse = true;
    G.th.resize(1);
    G.active = true;
  }
  std::thread main_thread([&] {
    ManagedBegin(0);
    {
      util::stream::ChainConfig config(sizeof(int64_t), b, sizeof(int64_t) * recs * b);
      util::stream::Chain chain(config);
      chain >> BlockSource(&blocks) >> InPlaceFilter();
      {
        // the Stream must be destroyed before Wait(): a Link whose first block is poison forwards it in ~Link
        util::stream::Stream stream;
        chain >> stream >> util::stream::kRecycle;
        for (; stream; ++stream) {
          seen.push_back((long)*static_cast<const int64_t *>(stream.Get()));
          if (seen.size() > 100000) abort();
        }
      }
      chain.Wait();
    }
    ManagedEnd();
  });
  std::unique_lock<std::mutex> l(G.m);
  std::string trace = Drive(l, sched, 1);
  G.active = false;
  l.unlock();
  main_thread.join();
  std::ostringstream out;
  out << trace << "0:" << Join(seen);
  return out.str();
}

std::string RunStreamChain(long b, long recs, const std::vector<std::vector<long> > &blocks,
                           const std::vector<long> &sched) {
  std::vector<long> seen;
  {
    std::unique_lock<std::mutex> l(G.m);
    ResetSched(b);
    G.coarse = true;
    G.th.resize(1);
    G.active = true;
  }
  std::thread main_thread([&] {
    ManagedBegin(0);
    {
      util::stream::ChainConfig config(sizeof(int64_t), b, sizeof(int64_t) * recs * b);
      util::stream::Chain chain(config);
      chain >> BlockSource(&blocks) >> InPlaceFilter() >> StreamReader(&seen);
      chain.Wait();
    }
    ManagedEnd();
  });
  std::unique_lock<std::mutex> l(G.m);
  std::string trace = Drive(l, sched, 1);
  G.active = false;
  l.unlock();
  main_thread.join();
  std::ostringstream out;
  out << trace << "3:" << Join(seen);
  return out.str();
}
#endif

}  // namespace

volatile sig_atomic_t g_signals = 0;
extern "C" void SigHandler(int) { ++g_signals; }

int main() {
  {
    // SIGUSR1 handled WITHOUT SA_RESTART: a blocking sem_wait returns EINTR (WaitSemaphore must retry)
    struct sigaction sa;
    std::memset(&sa, 0, sizeof(sa));
    sa.sa_handler = SigHandler;
    sigemptyset(&sa.sa_mask);
    sa.sa_flags = 0;
    sigaction(SIGUSR1, &sa, NULL);
  }
#if HAVE_HOOKS
  util::verif::PointHook() = &Dispatch;
#endif
  std::string line;
  while (std::getline(std::cin, line)) {
    std::istringstream in(line);
    std::string op;
    in >> op;
    if (op == "hooks") {
      std::cout << "hooks " << HAVE_HOOKS << std::endl;
    } else if (op == "pcq") {
      std::string cap, prods, quotas, sched;
      in >> cap >> prods >> quotas >> sched;
      PcqCase c;
      c.cap = atol(cap.c_str());
      std::vector<std::string> ps = Split(prods, ';');
      for (size_t i = 0; i < ps.size(); ++i) c.prods.push_back(Nats(ps[i]));
      c.quotas = Nats(quotas);
      c.sched = Nats(sched);
      std::string probe;
      if (in >> probe) c.probe = (probe == "auto") ? -1 : atol(probe.c_str());
      std::cout << RunPcq(c) << std::endl;
#if HAVE_HOOKS
    } else if (op == "pool") {
      long cap, workers; std::string reqs, sched;
      in >> cap >> workers >> reqs >> sched;
      std::cout << RunPool(cap, workers, Nats(reqs), Nats(sched)) << std::endl;
    } else if (op == "schain" || op == "smain") {
      long b, recs; std::string blocks, sched;
      in >> b >> recs >> blocks >> sched;
      std::vector<std::vector<long> > bl;
      std::vector<std::string> parts = Split(blocks, ';');
      for (size_t i = 0; i < parts.size(); ++i) {
        std::vector<long> v = Nats(parts[i]), w;
        for (size_t k = 0; k < v.size(); ++k) if (v[k] != 0) w.push_back(v[k]);
        bl.push_back(w);
      }
      std::cout << (op == "smain" ? RunStreamMain(b, recs, bl, Nats(sched)) : RunStreamChain(b, recs, bl, Nats(sched)))
                << std::endl;
    } else if (op == "chain") {
      long b, m; std::string data, sched;
      in >> b >> m >> data >> sched;
      std::cout << RunChain(b, m, Nats(data), Nats(sched)) << std::endl;
#endif
    } else if (op == "pcqf") {
      // pcqf <cap> <prods> <quotas> <fails> <sched>: <fails> = ';'-separated per thread, ','-separated attempt numbers
      std::string cap, prods, quotas, fails, sched;
      in >> cap >> prods >> quotas >> fails >> sched;
      PcqCase c;
      c.cap = atol(cap.c_str());
      std::vector<std::string> ps = Split(prods, ';');
      for (size_t i = 0; i < ps.size(); ++i) c.prods.push_back(Nats(ps[i]));
      c.quotas = Nats(quotas);
      std::vector<std::string> fs = Split(fails, ';');
      for (size_t i = 0; i < fs.size(); ++i) c.fails.push_back(Nats(fs[i]));
      c.sched = Nats(sched);
      std::cout << RunPcq(c) << std::endl;
    } else if (op == "pcqfree") {
      // pcqfree <cap> <prods> <quotas> <seed> <perturb%> <record 0|1>
      std::string cap, prods, quotas;
      unsigned seed = 1; int perturb = 0, record = 0, signals = 0, failpct = 0;
      in >> cap >> prods >> quotas >> seed >> perturb >> record >> signals >> failpct;
      PcqCase c;
      c.cap = atol(cap.c_str());
      std::vector<std::string> ps = Split(prods, ';');
      for (size_t i = 0; i < ps.size(); ++i) c.prods.push_back(Nats(ps[i]));
      c.quotas = Nats(quotas);
      std::cout << RunPcqFree(c, seed, perturb, record != 0, signals, failpct) << std::endl;
    } else {
      std::cout << "bad-op" << std::endl;
    }
  }
  return 0;
}
