// Harness for stream `filepiece` (C18): runs operation lines on the real util::FilePiece over a
// regular file (mmap), a pre-filled pipe (read), or a std::istream, and prints one canonical line
// `<result> @<Offset()>` per operation; mirrored by lean/Driver/C18.lean.
//   data <hex>                      bytes of the input as stored (possibly gzip/bzip2/xz)
//   open <file|pipe|istream> <min_buffer> <shim mode> <shim seed> <shim span> [<mmap fails from offset, -1 never>]
//   P | G | S <set> | L <delim> <strip> | E <delim> <strip> | D <set> | W <set> | F | B | I | U
//   rc <n>                          util::ReadCompressed on a pre-filled pipe: Read(buf, n) until 0
// <set> is `sp` (util::kSpaces) or `set:<hex bytes>`.
#include "util/file_piece.hh"
#include "util/file.hh"
#include "util/read_compressed.hh"
#include "util/tokenize_piece.hh"

#include <cmath>
#include <cstdio>
#include <cstdlib>
#include <cstring>
#include <dlfcn.h>
#include <fcntl.h>
#include <iostream>
#include <sstream>
#include <string>
#include <unistd.h>
#include <vector>

static int hexv(char c) { return c <= '9' ? c - '0' : (c | 32) - 'a' + 10; }
static std::string unhex(const std::string &h) {
  std::string r(h.size() / 2, '\0');
  for (size_t i = 0; i < r.size(); ++i) r[i] = (char)(hexv(h[2 * i]) * 16 + hexv(h[2 * i + 1]));
  return r;
}
static void hexout(const char *p, size_t n) { for (size_t i = 0; i < n; ++i) printf("%02x", (unsigned char)p[i]); }
static void bytes_out(const char *p, size_t n) {
  printf("B %zu:", n);
  if (n <= 48) { hexout(p, n); return; }
  hexout(p, 16); printf(".."); hexout(p + n - 16, 16);
  uint64_t h = 1469598103934665603ULL;
  for (size_t i = 0; i < n; ++i) { h ^= (unsigned char)p[i]; h *= 1099511628211ULL; }
  printf("#%016llx", (unsigned long long)h);
}

typedef void (*shim_config_t)(int, uint64_t, uint64_t, int);
typedef void (*shim_reset_t)(int);
typedef void (*shim_mmfail_t)(long long);

static bool g_set[256];
static const bool *parse_set(const std::string &s) {
  if (s == "sp") return util::kSpaces;
  memset(g_set, 0, sizeof(g_set));
  std::string b = unhex(s.substr(4));
  for (size_t i = 0; i < b.size(); ++i) g_set[(unsigned char)b[i]] = true;
  return g_set;
}

int main(int argc, char **argv) {
  const char *tmpdir = argc > 1 ? argv[1] : "/var/tmp";
  shim_config_t shim_config = (shim_config_t)dlsym(RTLD_DEFAULT, "kv_shim_config");
  shim_reset_t shim_reset = (shim_reset_t)dlsym(RTLD_DEFAULT, "kv_shim_reset");
  shim_mmfail_t shim_mmfail = (shim_mmfail_t)dlsym(RTLD_DEFAULT, "kv_shim_mmap_fail_from");
  std::string line, data;
  util::FilePiece *fp = NULL;
  std::istringstream *iss = NULL;
  std::string path = std::string(tmpdir) + "/c18_" + std::to_string((long)getpid()) + ".bin";
  while (std::getline(std::cin, line)) {
    std::istringstream in(line);
    std::string op;
    in >> op;
    if (op == "data") {
      std::string h; in >> h;
      data = unhex(h);
      puts("ok");
      continue;
    }
    if (op == "tok") {
      std::string set, h; int skip; in >> set >> skip >> h;
      std::string b = unhex(h);
      const bool *d = parse_set(set);
      std::vector<StringPiece> toks;
      if (skip) { for (util::TokenIter<util::BoolCharacter, true> i(StringPiece(b.data(), b.size()), d); i; ++i) toks.push_back(*i); }
      else { for (util::TokenIter<util::BoolCharacter, false> i(StringPiece(b.data(), b.size()), d); i; ++i) toks.push_back(*i); }
      printf("T %zu", toks.size());
      for (size_t i = 0; i < toks.size(); ++i) { printf(" %zu:", (size_t)toks[i].size()); hexout(toks[i].data(), toks[i].size()); }
      printf("\n");
      continue;
    }
    if (op == "open" || op == "rc") {
      delete fp; fp = NULL;
      delete iss; iss = NULL;
    }
    if (shim_config && (op == "open" || op == "rc")) shim_config(0, 0, 1, 3);
    if (shim_mmfail && (op == "open" || op == "rc")) shim_mmfail(-1);
    int pfd = -1;
    if (op == "rc" || op == "open") {
      // (both need the descriptor set up first)
    }
    try {
      if (op == "open") {
        std::string backend; unsigned long minbuf; int mode; unsigned long long seed, span;
        long long mmfail = -1;
        in >> backend >> minbuf >> mode >> seed >> span;
        if (!(in >> mmfail)) mmfail = -1;
        if ((mode || mmfail >= 0) && (!shim_config || !shim_mmfail)) { puts("no-shim"); continue; }
        if (backend == "file") {
          int fd = open(path.c_str(), O_CREAT | O_TRUNC | O_WRONLY, 0600);
          size_t off = 0;
          while (off < data.size()) { ssize_t w = write(fd, data.data() + off, data.size() - off); if (w <= 0) abort(); off += w; }
          close(fd);
          fd = util::OpenReadOrThrow(path.c_str());
          if (shim_reset) shim_reset(fd);
          if (shim_config) shim_config(mode, seed, span, 3);
          if (shim_mmfail) shim_mmfail(mmfail);
          fp = new util::FilePiece(fd, "c18", NULL, minbuf);
        } else if (backend == "pipe") {
          int fds[2];
          if (pipe(fds)) abort();
          if (data.size() + 4096 > 65536) {
            if (fcntl(fds[1], F_SETPIPE_SZ, (int)(data.size() + 4096)) < (int)data.size()) { puts("pipe-too-small"); close(fds[0]); close(fds[1]); continue; }
          }
          size_t off = 0;
          while (off < data.size()) { ssize_t w = write(fds[1], data.data() + off, data.size() - off); if (w <= 0) abort(); off += w; }
          close(fds[1]);
          if (shim_reset) shim_reset(fds[0]);
          if (shim_config) shim_config(mode, seed, span, 3);
          fp = new util::FilePiece(fds[0], "c18", NULL, minbuf);
        } else if (backend == "istream") {
          iss = new std::istringstream(data);
          fp = new util::FilePiece(*iss, "c18", minbuf);
        } else { puts("bad-op"); continue; }
        printf("ok @%llu\n", (unsigned long long)fp->Offset());
        continue;
      }
      if (op == "rc") {
        // util::ReadCompressed::Read with a fixed request size until it returns 0; prints the
        // concatenation digest, the number of calls and whether any call returned more than asked.
        unsigned long amount; int mode; unsigned long long seed, span;
        in >> amount >> mode >> seed >> span;
        if (mode && !shim_config) { puts("no-shim"); continue; }
        int fds[2];
        if (pipe(fds)) abort();
        if (data.size() + 4096 > 65536) {
          if (fcntl(fds[1], F_SETPIPE_SZ, (int)(data.size() + 4096)) < (int)data.size()) { puts("pipe-too-small"); close(fds[0]); close(fds[1]); continue; }
        }
        size_t off = 0;
        while (off < data.size()) { ssize_t w = write(fds[1], data.data() + off, data.size() - off); if (w <= 0) abort(); off += w; }
        close(fds[1]);
        if (shim_reset) shim_reset(fds[0]);
        if (shim_config) shim_config(mode, seed, span, 3);
        util::ReadCompressed rc(fds[0]);
        std::string out;
        std::vector<char> buf(amount + 1);
        bool over = false; unsigned long calls = 0, zero_then_data = 0;
        std::vector<std::size_t> sizes;
        for (;;) {
          std::size_t got = rc.Read(&buf[0], amount);
          ++calls;
          sizes.push_back(got);
          if (got > amount) over = true;
          if (!got) break;
          out.append(&buf[0], got);
        }
        // after the end every further Read must return 0
        for (int k = 0; k < 3; ++k) if (rc.Read(&buf[0], amount)) ++zero_then_data;
        printf("RC "); bytes_out(out.data(), out.size());
        printf(" over=%d data_after_zero=%lu sizes=%zu:", (int)over, zero_then_data, sizes.size());
        for (size_t i = 0; i < sizes.size() && i < 16; ++i) printf("%s%zu", i ? "," : "", sizes[i]);
        printf("\n");
        continue;
      }
      if (!fp) { puts("not-open"); continue; }
      if (op == "P") { char c = fp->peek(); printf("C %02x", (unsigned char)c); }
      else if (op == "G") { char c = fp->get(); printf("C %02x", (unsigned char)c); }
      else if (op == "S") { std::string s; in >> s; fp->SkipSpaces(parse_set(s)); printf("SK"); }
      else if (op == "L" || op == "E") {
        unsigned d; int strip; in >> d >> strip;
        if (op == "L") { StringPiece l = fp->ReadLine((char)d, strip != 0); bytes_out(l.data(), l.size()); }
        else { StringPiece l; if (fp->ReadLineOrEOF(l, (char)d, strip != 0)) bytes_out(l.data(), l.size()); else printf("EOF"); }
      }
      else if (op == "D") { std::string s; in >> s; StringPiece w = fp->ReadDelimited(parse_set(s)); bytes_out(w.data(), w.size()); }
      else if (op == "W") { std::string s; in >> s; StringPiece w; if (fp->ReadWordSameLine(w, parse_set(s))) bytes_out(w.data(), w.size()); else printf("N"); }
      else if (op == "F") { float v = fp->ReadFloat(); if (std::isnan(v)) printf("V nan"); else { uint32_t b; memcpy(&b, &v, 4); printf("V %u", b); } }
      else if (op == "B") { double v = fp->ReadDouble(); if (std::isnan(v)) printf("V nan"); else { uint64_t b; memcpy(&b, &v, 8); printf("V %llu", (unsigned long long)b); } }
      else if (op == "I") { long v = fp->ReadLong(); printf("V %ld", v); }
      else if (op == "U") { unsigned long v = fp->ReadULong(); printf("V %lu", v); }
      else { puts("bad-op"); continue; }
    } catch (const util::EndOfFileException &e) {
      printf("EOF");
    } catch (const util::ParseNumberException &e) {
      const char *w = e.what();
      const char *q = strstr(w, "Could not parse \"");
      bool empty = q && !strncmp(q + 17, "\" into a ", 9);
      printf("PE %c", empty ? 'e' : 'n');
    } catch (const util::CompressedException &e) {
      printf("EXC compressed");
    } catch (const util::Exception &e) {
      printf("EXC other");
    }
    if (fp) printf(" @%llu\n", (unsigned long long)fp->Offset()); else printf(" @-\n");
  }
  delete fp;
  delete iss;
  unlink(path.c_str());
  return 0;
}
