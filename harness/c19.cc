// Harness for stream `format` (C19).  Runs the real util::ToString / FakeOStream streams /
// FilePiece number readers of the current tree.
//
//   c19 lines                       op lines on stdin; per op one `M …` line (model fidelity, compared with
//                                   lean/Driver/C19.lean by checks/C19.py) and one `O ok` / `O FAIL …` line
//                                   (property oracle on the real code, independent of the Lean model)
//   c19 exh-f32 <lo> <hi> <thr>     every float bit pattern in [lo, hi): reservation, characters, round trip
//   c19 exh-u32 / exh-i32 <lo> <hi> <thr>   every 32-bit integer in [lo, hi)
//   c19 exh-halves <thr>            every 8-digit half of the 16-digit SSE2 core of ToString(uint64_t)
//   c19 classify-f32 <lo> <hi> <thr>  hardness classifier (properties of IEEE arithmetic / the digit generator, computed
//                                   with libc strtof/strtod, NOT with kenlm's reader): prints `bits class[,class] detail`
//   c19 classify-f64 <n> <seed> <thr>  the same for n pseudo-random doubles (long double as the wider format)
//   c19 arpa <file>                 every probability / back-off token of an ARPA file: FilePiece::ReadFloat == strtof,
//                                   util::ToString(value) == the token
//   c19 find-class f32|f64 <neg> <ndigits> <point> <seed>   a value whose shortest digits fall in the class
//   c19 exact f32|f64|u64|i64 <v>   replay: ToString into a heap block of exactly kBytes (ASan reports an overflow)
//   c19 filestream f32|f64 <bits>   replay: FileStream positioned kBytes before the end of its buffer
//
// The oracle measures the bytes *stored* (text + StringBuilder's NUL for floats; the unconditional
// 16-byte SSE store for integers) with a two-pattern canary.
#include "util/double-conversion/double-conversion.h"
#include "util/double-conversion/fast-dtoa.h"
#include "util/exception.hh"
#include "util/file.hh"
#include "util/file_piece.hh"
#include "util/file_stream.hh"
#include "util/float_to_string.hh"
#include "util/integer_to_string.hh"
#include "util/string_stream.hh"

#include <cmath>
#include <cstdio>
#include <cstdlib>
#include <cstring>
#include <inttypes.h>
#include <iostream>
#include <limits>
#include <sstream>
#include <string>
#include <vector>
#include <pthread.h>
#include <stdint.h>
#include <sys/mman.h>
#include <sys/syscall.h>
#include <unistd.h>

using double_conversion::DoubleToStringConverter;

namespace {

const size_t kArena = 96;

int MemFD() {
  int fd = (int)syscall(SYS_memfd_create, "c19", 0u);
  if (fd < 0) { perror("memfd_create"); exit(3); }
  return fd;
}
void WriteAll(int fd, const char *p, size_t n) {
  while (n) { ssize_t w = write(fd, p, n); if (w <= 0) { perror("write"); exit(3); } p += w; n -= (size_t)w; }
}

template <class T> struct Bits;
template <> struct Bits<float> { typedef uint32_t U; };
template <> struct Bits<double> { typedef uint64_t U; };
template <class T> typename Bits<T>::U ToBits(T v) { typename Bits<T>::U u; memcpy(&u, &v, sizeof u); return u; }
template <class T> T FromBits(typename Bits<T>::U u) { T v; memcpy(&v, &u, sizeof v); return v; }

// Bytes stored by ToString(value, buf): run twice over differently patterned arenas.
template <class T> size_t Stored(T value, std::string &text) {
  unsigned char a[kArena], b[kArena];
  memset(a, 0xA5, sizeof a); memset(b, 0x5A, sizeof b);
  char *ea = util::ToString(value, reinterpret_cast<char*>(a));
  util::ToString(value, reinterpret_cast<char*>(b));
  text.assign(reinterpret_cast<char*>(a), ea - reinterpret_cast<char*>(a));
  size_t stored = 0;
  for (size_t i = 0; i < kArena; ++i) if (a[i] != 0xA5 || b[i] != 0x5A) stored = i + 1;
  return stored;
}

bool NumberChars(const std::string &t, const char *allowed) {
  for (size_t i = 0; i < t.size(); ++i) if (!strchr(allowed, t[i]) || !t[i]) return false;
  return !t.empty();
}

template <class T> struct Reader;
template <> struct Reader<float> { static float Read(util::FilePiece &f) { return f.ReadFloat(); } };
template <> struct Reader<double> { static double Read(util::FilePiece &f) { return f.ReadDouble(); } };
template <> struct Reader<unsigned long> { static unsigned long Read(util::FilePiece &f) { return f.ReadULong(); } };
template <> struct Reader<long> { static long Read(util::FilePiece &f) { return f.ReadLong(); } };

// Read one number from "<text>\n" with the real FilePiece.  consumed = bytes of text before the rest.
template <class T> bool ReadToken(const std::string &text, T &out, size_t &consumed, std::string &err) {
  int fd = MemFD();
  WriteAll(fd, text.data(), text.size());
  WriteAll(fd, "\n", 1);
  lseek(fd, 0, SEEK_SET);
  try {
    util::FilePiece f(fd, "token", NULL, 4096);
    out = Reader<T>::Read(f);
    StringPiece rest = f.ReadLine('\n', false);
    consumed = text.size() - rest.size();
    return true;
  } catch (const util::ParseNumberException &e) {
    err = "parse";
  } catch (const util::EndOfFileException &e) {
    err = "eof";
  } catch (const std::exception &e) {
    err = "other";
  }
  return false;
}

std::string Hex(const std::string &s) {
  static const char *d = "0123456789abcdef";
  std::string r;
  for (size_t i = 0; i < s.size(); ++i) { r += d[(unsigned char)s[i] >> 4]; r += d[s[i] & 15]; }
  return r.empty() ? "-" : r;
}
std::string UnHex(const std::string &h) {
  std::string r;
  if (h == "-") return r;
  for (size_t i = 0; i + 1 < h.size(); i += 2) {
    unsigned v; sscanf(h.substr(i, 2).c_str(), "%x", &v); r += (char)v;
  }
  return r;
}

// Text via the two FakeOStream users.
template <class T> std::string ViaStringStream(T v) { util::StringStream s; s << 'x' << v << 'y'; return s.str(); }
template <class T> std::string ViaFileStream(T v) {
  int fd = MemFD();
  {
    util::FileStream s(fd, 0);   // minimum buffer: kToStringMaxBytes
    s << 'x' << v << 'y';
  }
  char buf[256];
  ssize_t n = pread(fd, buf, sizeof buf, 0);
  close(fd);
  return std::string(buf, n < 0 ? 0 : (size_t)n);
}

// ---------------------------------------------------------------- floats, one value
template <class T> void FloatOp(const char *tag, typename Bits<T>::U bits, bool streams) {
  T v = FromBits<T>(bits);
  std::string text;
  size_t stored = Stored(v, text);
  const size_t reserved = util::ToStringBuf<T>::kBytes;
  // model-fidelity line: what DoubleToAscii produced, and the text
  if (std::isnan(v)) {
    printf("M sv nan | %s\n", text.c_str());
  } else if (std::isinf(v)) {
    printf("M sv inf %d | %s\n", v < 0 ? 1 : 0, text.c_str());
  } else {
    char digits[DoubleToStringConverter::kBase10MaximalLength + 2];
    bool sign; int length, point;
    DoubleToStringConverter::DoubleToAscii(
        v, sizeof(T) == 4 ? DoubleToStringConverter::SHORTEST_SINGLE : DoubleToStringConverter::SHORTEST, 0,
        digits, sizeof digits, &sign, &length, &point);
    digits[length] = 0;
    printf("M sf %d %s %d | %s\n", sign ? 1 : 0, digits, point, text.c_str());
  }
  // property oracle
  std::ostringstream why;
  if (stored > reserved) why << " stored=" << stored << ">reserved=" << reserved;
  if (text.size() + 1 != stored && stored <= kArena - 1) why << " stored=" << stored << "!=len+1=" << text.size() + 1;
  if (!NumberChars(text, std::isnan(v) ? "NaN" : std::isinf(v) ? "-inf" : "0123456789.e-")) why << " foreign-char";
  if (stored <= reserved && streams) {
    // only when the in-place write is within the reservation (otherwise the streams would corrupt memory here)
    std::string want = "x" + text + "y";
    if (ViaStringStream(v) != want) why << " StringStream=" << ViaStringStream(v);
    if (ViaFileStream(v) != want) why << " FileStream=" << ViaFileStream(v);
  }
  T back = 0; size_t consumed = 0; std::string err;
  if (!ReadToken<T>(text, back, consumed, err)) why << " read-error=" << err;
  else {
    if (consumed != text.size()) why << " consumed=" << consumed;
    if (std::isnan(v) ? !std::isnan(back) : ToBits(back) != bits)
      why << " read-back-bits=" << (uint64_t)ToBits(back);
  }
  if (why.str().empty()) printf("O ok %s %" PRIu64 " len=%zu\n", tag, (uint64_t)bits, text.size());
  else printf("O FAIL %s %" PRIu64 " text=%s%s\n", tag, (uint64_t)bits, text.c_str(), why.str().c_str());
}

// ---------------------------------------------------------------- integers, one value
template <class T> void IntOp(const char *tag, const char *mtag, T v, const std::string &decimal) {
  std::string text;
  size_t stored = Stored(v, text);
  const size_t reserved = util::ToStringBuf<T>::kBytes;
  printf("M %s %s | %s %zu\n", mtag, decimal.c_str(), text.c_str(), stored);
  std::ostringstream why;
  if (stored > reserved) why << " stored=" << stored << ">reserved=" << reserved;
  if (text != decimal) why << " text!=decimal";
  if (!NumberChars(text, "0123456789-")) why << " foreign-char";
  if (stored <= reserved) {
    std::string want = "x" + text + "y";
    if (ViaStringStream(v) != want) why << " StringStream=" << ViaStringStream(v);
    if (ViaFileStream(v) != want) why << " FileStream=" << ViaFileStream(v);
  }
  size_t consumed = 0; std::string err;
  if (std::numeric_limits<T>::is_signed) {
    long back = 0;
    if (!ReadToken<long>(text, back, consumed, err)) why << " read-error=" << err;
    else if (back != (long)v || consumed != text.size()) why << " ReadLong=" << back;
  } else {
    unsigned long back = 0;
    if (!ReadToken<unsigned long>(text, back, consumed, err)) why << " read-error=" << err;
    else if (back != (unsigned long)v || consumed != text.size()) why << " ReadULong=" << back;
  }
  if (why.str().empty()) printf("O ok %s %s stored=%zu\n", tag, decimal.c_str(), stored);
  else printf("O FAIL %s %s text=%s%s\n", tag, decimal.c_str(), text.c_str(), why.str().c_str());
}

void PtrOp(uint64_t v) {
  const void *p = reinterpret_cast<const void*>(static_cast<uintptr_t>(v));
  std::string text;
  size_t stored = Stored(p, text);
  const size_t reserved = util::ToStringBuf<const void*>::kBytes;
  printf("M p %" PRIu64 " | %s\n", v, text.c_str());
  char want[32]; snprintf(want, sizeof want, "0x%" PRIx64, v);
  std::ostringstream why;
  if (stored > reserved) why << " stored=" << stored << ">reserved=" << reserved;
  if (text != want) why << " text!=" << want;
  if (stored <= reserved && ViaStringStream(p) != "x" + text + "y") why << " StringStream";
  if (why.str().empty()) printf("O ok ptr %" PRIu64 "\n", v);
  else printf("O FAIL ptr %" PRIu64 " text=%s%s\n", v, text.c_str(), why.str().c_str());
}

// ---------------------------------------------------------------- reader grammar ops
void ReadIntOp(const std::string &op, const std::string &text) {
  size_t consumed = 0; std::string err;
  // libc as the independent oracle for what strtoul/strtol denote is pointless (it is the implementation);
  // the oracle here is the decimal value recomputed by checks/C19.py for well-formed tokens.
  if (op == "rul") {
    unsigned long v = 0;
    if (ReadToken<unsigned long>(text, v, consumed, err)) printf("M rul %s | ok %lu %zu\n", Hex(text).c_str(), v, consumed);
    else printf("M rul %s | err %s\n", Hex(text).c_str(), err.c_str());
  } else {
    long v = 0;
    if (ReadToken<long>(text, v, consumed, err)) printf("M rl %s | ok %ld %zu\n", Hex(text).c_str(), v, consumed);
    else printf("M rl %s | err %s\n", Hex(text).c_str(), err.c_str());
  }
  printf("O ok %s\n", op.c_str());
}

template <class T> void ReadFloatOp(const char *op, const std::string &text) {
  T v = 0; size_t consumed = 0; std::string err;
  if (!ReadToken<T>(text, v, consumed, err)) {
    printf("M rd %s | err %s\nO ok %s\n", Hex(text).c_str(), err.c_str(), op);
    return;
  }
  if (std::isnan(v)) { printf("M rd %s | nan %zu\nO ok %s\n", Hex(text).c_str(), consumed, op); return; }
  printf("M rd %s | val %d %zu\n", Hex(text).c_str(), std::signbit(v) ? 1 : 0, consumed);
  // oracle: the consumed prefix denotes the same value under libc's correctly rounded strtod/strtof
  size_t b = 0;
  while (b < consumed && strchr(" \t\n\v\f\r", text[b])) ++b;
  std::string prefix = text.substr(b, consumed - b);
  char *end = NULL;
  T ref = sizeof(T) == 4 ? (T)strtof(prefix.c_str(), &end) : (T)strtod(prefix.c_str(), &end);
  if (ToBits(ref) != ToBits(v) || (size_t)(end - prefix.c_str()) != prefix.size())
    printf("O FAIL %s text=%s bits=%" PRIu64 " libc=%" PRIu64 " libc-consumed=%zu\n", op, Hex(text).c_str(),
           (uint64_t)ToBits(v), (uint64_t)ToBits(ref), (size_t)(end - prefix.c_str()));
  else printf("O ok %s\n", op);
}

int Lines() {
  std::string line;
  while (std::getline(std::cin, line)) {
    std::istringstream in(line);
    std::string op; in >> op;
    if (op == "f32") { uint64_t b; in >> b; FloatOp<float>("f32", (uint32_t)b, true); }
    else if (op == "f64") { uint64_t b; in >> b; FloatOp<double>("f64", b, true); }
    else if (op == "u64") { std::string s; in >> s; IntOp<uint64_t>("u64", "u64", strtoull(s.c_str(), NULL, 10), s); }
    else if (op == "i64") { std::string s; in >> s; IntOp<int64_t>("i64", "i64", strtoll(s.c_str(), NULL, 10), s); }
    else if (op == "u32") { std::string s; in >> s; IntOp<uint32_t>("u32", "u32", (uint32_t)strtoull(s.c_str(), NULL, 10), s); }
    else if (op == "i32") { std::string s; in >> s; IntOp<int32_t>("i32", "i32", (int32_t)strtoll(s.c_str(), NULL, 10), s); }
    else if (op == "u16") { std::string s; in >> s; IntOp<uint16_t>("u16", "u32", (uint16_t)strtoull(s.c_str(), NULL, 10), s); }
    else if (op == "i16") { std::string s; in >> s; IntOp<int16_t>("i16", "i32", (int16_t)strtoll(s.c_str(), NULL, 10), s); }
    else if (op == "ptr") { uint64_t v; in >> v; PtrOp(v); }
    else if (op == "rul" || op == "rl") { std::string h; in >> h; ReadIntOp(op, UnHex(h)); }
    else if (op == "rd") { std::string h; in >> h; ReadFloatOp<double>("rd", UnHex(h)); }
    else if (op == "rf") { std::string h; in >> h; ReadFloatOp<float>("rf", UnHex(h)); }
    else { printf("M bad-op\nO FAIL bad-op %s\n", line.c_str()); }
  }
  return 0;
}

// ---------------------------------------------------------------- exhaustive runs
struct Job {
  uint64_t lo, hi;
  int kind;            // 0 f32, 1 u32, 2 i32, 3 halves
  uint64_t evaluated, overflows, foreign, mismatches, nan_count, max_stored, max_len;
  std::vector<std::string> first;
  pthread_t th;
};

void Note(Job &j, const std::string &s) { if (j.first.size() < 5) j.first.push_back(s); }

// read back a batch "t1\nt2\n…" with the real FilePiece
template <class T, class F> void ReadBatch(const std::string &batch, size_t n, F check) {
  int fd = MemFD();
  WriteAll(fd, batch.data(), batch.size());
  lseek(fd, 0, SEEK_SET);
  util::FilePiece f(fd, "batch", NULL, 1 << 20);
  for (size_t i = 0; i < n; ++i) {
    try {
      T v = Reader<T>::Read(f);
      check(i, true, v);
    } catch (const std::exception &e) {
      check(i, false, T());
      try { f.ReadLine(); } catch (...) {}
    }
  }
}

struct CheckF32 {
  Job *j; const std::vector<uint32_t> *bits;
  void operator()(size_t i, bool ok, float v) const {
    float want = FromBits<float>((*bits)[i]);
    if (want != want ? !(ok && v != v) : (!ok || ToBits(v) != (*bits)[i])) {
      ++j->mismatches;
      std::ostringstream s; s << "f32 bits=" << (*bits)[i] << (ok ? " read-back=" : " read-error") << (ok ? ToBits(v) : 0u);
      Note(*j, s.str());
    }
  }
};
template <class T> struct CheckInt {
  Job *j; const std::vector<T> *vals;
  void operator()(size_t i, bool ok, T v) const {
    if (!ok || v != (*vals)[i]) {
      ++j->mismatches;
      std::ostringstream s; s << "int value=" << (*vals)[i] << (ok ? " read-back=" : " read-error") << v;
      Note(*j, s.str());
    }
  }
};

inline bool FloatChars(const char *p, size_t n) {
  for (size_t i = 0; i < n; ++i) {
    char c = p[i];
    if (!((c >= '0' && c <= '9') || c == '.' || c == '-' || c == 'e')) return false;
  }
  return n > 0;
}

void *RunF32(void *arg) {
  Job &j = *static_cast<Job*>(arg);
  const size_t reserved = util::ToStringBuf<float>::kBytes;
  const uint64_t kChunk = 1 << 18;
  std::string batch; std::vector<uint32_t> bits;
  for (uint64_t base = j.lo; base < j.hi; base += kChunk) {
    uint64_t top = std::min(j.hi, base + kChunk);
    batch.clear(); bits.clear();
    for (uint64_t b = base; b < top; ++b) {
      float v = FromBits<float>((uint32_t)b);
      unsigned char a[64];
      memset(a, 0xA5, sizeof a);
      char *e = util::ToString(v, reinterpret_cast<char*>(a));
      size_t len = e - reinterpret_cast<char*>(a);
      size_t stored = len + 1;                       // the NUL written by ~StringBuilder
      for (size_t i = 63; i > stored; --i) if (a[i] != 0xA5) { stored = i + 1; break; }
      ++j.evaluated;
      if (stored > j.max_stored) j.max_stored = stored;
      if (len > j.max_len) j.max_len = len;
      if (stored > reserved) {
        ++j.overflows;
        std::ostringstream s; s << "f32 bits=" << b << " text=" << std::string((char*)a, len) << " stored=" << stored << " reserved=" << reserved;
        Note(j, s.str());
      }
      if (v != v) {
        ++j.nan_count;
        if (len != 3 || memcmp(a, "NaN", 3)) { ++j.foreign; Note(j, "NaN text differs"); }
        // "NaN" followed by the next token of the same window must read back as a NaN (payloads are not representable)
        batch.append((char*)a, len); batch += '\n';
        bits.push_back((uint32_t)b);
        continue;
      }
      bool special = std::isinf(v);
      if (special ? (std::string((char*)a, len) != (v < 0 ? "-inf" : "inf")) : !FloatChars((char*)a, len)) {
        ++j.foreign;
        std::ostringstream s; s << "f32 bits=" << b << " foreign characters in " << std::string((char*)a, len);
        Note(j, s.str());
      }
      batch.append((char*)a, len); batch += '\n';
      bits.push_back((uint32_t)b);
    }
    CheckF32 c = { &j, &bits };
    ReadBatch<float>(batch, bits.size(), c);
  }
  return NULL;
}

// decimal counter: the independent oracle for integer text
struct Dec {
  char d[24]; int n;   // most significant first in d[24-n..24)
  explicit Dec(uint64_t v) { n = 0; do { d[23 - n++] = '0' + v % 10; v /= 10; } while (v); }
  void Inc() { int i = 23; while (i >= 24 - n && d[i] == '9') d[i--] = '0'; if (i < 24 - n) { d[i] = '1'; ++n; } else ++d[i]; }
  void Dcr() { int i = 23; while (d[i] == '0') d[i--] = '9'; --d[i]; if (n > 1 && d[24 - n] == '0') --n; }
  const char *p() const { return d + 24 - n; }
};

void *RunU32(void *arg) {
  Job &j = *static_cast<Job*>(arg);
  const size_t reserved = util::ToStringBuf<uint32_t>::kBytes;
  const uint64_t kChunk = 1 << 18;
  std::string batch; std::vector<unsigned long> vals;
  Dec dec(j.lo);
  for (uint64_t base = j.lo; base < j.hi; base += kChunk) {
    uint64_t top = std::min(j.hi, base + kChunk);
    batch.clear(); vals.clear();
    for (uint64_t b = base; b < top; ++b, dec.Inc()) {
      unsigned char a[64];
      memset(a, 0xA5, sizeof a);
      char *e = util::ToString((uint32_t)b, reinterpret_cast<char*>(a));
      size_t len = e - reinterpret_cast<char*>(a), stored = len;
      for (size_t i = 63; i >= len && i > 0; --i) if (a[i] != 0xA5) { stored = i + 1; break; }
      ++j.evaluated;
      if (stored > j.max_stored) j.max_stored = stored;
      if (len > j.max_len) j.max_len = len;
      if (stored > reserved) { ++j.overflows; std::ostringstream s; s << "u32 " << b << " stored=" << stored; Note(j, s.str()); }
      if ((int)len != dec.n || memcmp(a, dec.p(), len)) { ++j.foreign; std::ostringstream s; s << "u32 " << b << " text=" << std::string((char*)a, len); Note(j, s.str()); }
      batch.append((char*)a, len); batch += '\n';
      vals.push_back((unsigned long)b);
    }
    CheckInt<unsigned long> c = { &j, &vals };
    ReadBatch<unsigned long>(batch, vals.size(), c);
  }
  return NULL;
}

// i32: lo/hi index the offset from INT32_MIN
void *RunI32(void *arg) {
  Job &j = *static_cast<Job*>(arg);
  const size_t reserved = util::ToStringBuf<int32_t>::kBytes;
  const uint64_t kChunk = 1 << 18;
  std::string batch; std::vector<long> vals;
  for (uint64_t base = j.lo; base < j.hi; base += kChunk) {
    uint64_t top = std::min(j.hi, base + kChunk);
    batch.clear(); vals.clear();
    int64_t first = (int64_t)base - 2147483648LL;
    Dec dec((uint64_t)(first < 0 ? -first : first));
    for (uint64_t b = base; b < top; ++b) {
      int64_t v = (int64_t)b - 2147483648LL;
      unsigned char a[64];
      memset(a, 0xA5, sizeof a);
      char *e = util::ToString((int32_t)v, reinterpret_cast<char*>(a));
      size_t len = e - reinterpret_cast<char*>(a), stored = len;
      for (size_t i = 63; i >= len && i > 0; --i) if (a[i] != 0xA5) { stored = i + 1; break; }
      ++j.evaluated;
      if (stored > j.max_stored) j.max_stored = stored;
      if (len > j.max_len) j.max_len = len;
      if (stored > reserved) { ++j.overflows; std::ostringstream s; s << "i32 " << v << " stored=" << stored; Note(j, s.str()); }
      size_t off = v < 0 ? 1 : 0;
      if ((v < 0 && a[0] != '-') || (int)(len - off) != dec.n || memcmp(a + off, dec.p(), len - off)) {
        ++j.foreign; std::ostringstream s; s << "i32 " << v << " text=" << std::string((char*)a, len); Note(j, s.str());
      }
      batch.append((char*)a, len); batch += '\n';
      vals.push_back((long)v);
      if (v < 0) dec.Dcr(); else dec.Inc();
    }
    CheckInt<long> c = { &j, &vals };
    ReadBatch<long>(batch, vals.size(), c);
  }
  return NULL;
}

// every 8-digit group through both lanes of the SSE2 core of ToString(uint64_t):
//   v * 10^8 + 12345678 (high lane, 16-digit path for v >= 1, and the >= 10^16 path with prefix 1844)
void *RunHalves(void *arg) {
  Job &j = *static_cast<Job*>(arg);
  const size_t reserved = util::ToStringBuf<uint64_t>::kBytes;
  Dec dec(j.lo);
  for (uint64_t h = j.lo; h < j.hi; ++h, dec.Inc()) {
    char eight[9]; memset(eight, '0', 8); memcpy(eight + 8 - dec.n, dec.p(), dec.n); eight[8] = 0;
    // a) high lane: h * 10^8 + 12345678   b) low lane: 87654321 * 10^8 + h   c) long path: 1844 * 10^16 + h * 10^8 + 7
    uint64_t vals[3] = { h * 100000000ULL + 12345678ULL, 8765432100000000ULL + h, 0 };
    std::string want[3];
    want[0] = h ? std::string(dec.p(), dec.n) + "12345678" : "12345678";
    want[1] = std::string("87654321") + eight;
    int cases = 2;
    if (h < 67440737ULL) { vals[2] = 18440000000000000000ULL + h * 100000000ULL + 7ULL; want[2] = std::string("1844") + eight + "00000007"; cases = 3; }
    for (int k = 0; k < cases; ++k) {
      unsigned char a[64];
      memset(a, 0xA5, sizeof a);
      char *e = util::ToString(vals[k], reinterpret_cast<char*>(a));
      size_t len = e - reinterpret_cast<char*>(a), stored = len;
      for (size_t i = 63; i >= len && i > 0; --i) if (a[i] != 0xA5) { stored = i + 1; break; }
      ++j.evaluated;
      if (stored > j.max_stored) j.max_stored = stored;
      if (len > j.max_len) j.max_len = len;
      if (stored > reserved) { ++j.overflows; std::ostringstream s; s << "u64 " << vals[k] << " stored=" << stored; Note(j, s.str()); }
      if (std::string((char*)a, len) != want[k]) { ++j.foreign; std::ostringstream s; s << "u64 " << vals[k] << " text=" << std::string((char*)a, len); Note(j, s.str()); }
    }
  }
  return NULL;
}

int Exhaustive(int kind, uint64_t lo, uint64_t hi, int threads) {
  std::vector<Job> jobs(threads);
  uint64_t span = (hi - lo + threads - 1) / threads;
  for (int t = 0; t < threads; ++t) {
    Job &j = jobs[t];
    j.lo = std::min(hi, lo + span * t); j.hi = std::min(hi, j.lo + span); j.kind = kind;
    j.evaluated = j.overflows = j.foreign = j.mismatches = j.nan_count = j.max_stored = j.max_len = 0;
    void *(*fn)(void*) = kind == 0 ? RunF32 : kind == 1 ? RunU32 : kind == 2 ? RunI32 : RunHalves;
    pthread_create(&j.th, NULL, fn, &j);
  }
  Job tot; tot.evaluated = tot.overflows = tot.foreign = tot.mismatches = tot.nan_count = tot.max_stored = tot.max_len = 0;
  for (int t = 0; t < threads; ++t) {
    pthread_join(jobs[t].th, NULL);
    Job &j = jobs[t];
    tot.evaluated += j.evaluated; tot.overflows += j.overflows; tot.foreign += j.foreign; tot.mismatches += j.mismatches;
    tot.nan_count += j.nan_count;
    tot.max_stored = std::max(tot.max_stored, j.max_stored); tot.max_len = std::max(tot.max_len, j.max_len);
    for (size_t i = 0; i < j.first.size(); ++i) if (tot.first.size() < 8) tot.first.push_back(j.first[i]);
  }
  printf("evaluated=%" PRIu64 " overflows=%" PRIu64 " foreign=%" PRIu64 " roundtrip_mismatches=%" PRIu64
         " nan=%" PRIu64 " max_stored=%" PRIu64 " max_len=%" PRIu64 "\n",
         tot.evaluated, tot.overflows, tot.foreign, tot.mismatches, tot.nan_count, tot.max_stored, tot.max_len);
  for (size_t i = 0; i < tot.first.size(); ++i) printf("first: %s\n", tot.first[i].c_str());
  return 0;
}

// ---------------------------------------------------------------- hardness classifier
// Classes (all about the float, its shortest text t and IEEE arithmetic; kenlm's reader is not involved):
//   dr    double-rounding sensitive: strtof(t) == f but (float)strtod(t) != f
//   mid   t is not exactly representable in double and strtod(t) lies within kMidUlps double-ulps of a midpoint between
//         two adjacent floats (detail = distance); a reader that rounds twice or truncates digits can go wrong here
//   tie   t is exactly a midpoint between two adjacent floats (round-half-even decides)               [sampled]
//   big   Grisu's fast path gives up for this value (bignum fallback of the digit generator)          [sampled]
//   d9    the shortest text needs the maximum of 9 significant digits                                 [sampled]
//   pow2  mantissa zero: the rounding interval is asymmetric                                          [all]
const double kMidUlps = 64;
struct ClassJob { uint64_t lo, hi; std::string out; uint64_t counts[6]; pthread_t th; };

inline bool Sampled(uint32_t bits, unsigned one_in_log2) {
  return ((bits * 2654435761u) >> (32 - one_in_log2)) == 0;
}

void *RunClassify(void *arg) {
  ClassJob &j = *static_cast<ClassJob*>(arg);
  char line[160];
  for (uint64_t b = j.lo; b < j.hi; ++b) {
    float f = FromBits<float>((uint32_t)b);
    if (f != f || std::isinf(f) || f == 0) continue;
    char t[64];
    char *e = util::ToString(f, t); *e = 0;
    std::string cls; double dist = -1;
    float viaf = strtof(t, NULL);
    double d = strtod(t, NULL);
    if (ToBits(viaf) == (uint32_t)b && ToBits((float)d) != (uint32_t)b) { cls += "dr,"; ++j.counts[0]; }
    {
      float g = (float)d;
      float up = nextafterf(g, INFINITY), dn = nextafterf(g, -INFINITY);
      double ulp = nextafter(fabs(d), INFINITY) - fabs(d);
      double best = 1e300;
      if (!std::isinf(up) && !std::isinf(g)) best = std::min(best, fabs(d - ((double)g + (double)up) * 0.5) / ulp);
      if (!std::isinf(dn) && !std::isinf(g)) best = std::min(best, fabs(d - ((double)g + (double)dn) * 0.5) / ulp);
      if (best <= kMidUlps) {
        // exact decimal (the text is representable in double, checked with the wider long double) on a midpoint = a true
        // tie that round-half-even must resolve: very many for integer-valued floats above 2^24, therefore sampled
        bool exact = (long double)d == strtold(t, NULL);
        if (exact && best == 0) { ++j.counts[5]; if (Sampled((uint32_t)b, 10)) { cls += "tie,"; dist = 0; } }
        else if (!exact) { cls += "mid,"; dist = best; ++j.counts[1]; }
      }
    }
    if ((b & 0x7FFFFF) == 0) { cls += "pow2,"; ++j.counts[4]; }
    {
      char buf[32]; int len, point;
      double_conversion::Vector<char> v(buf, sizeof buf);
      bool fast = double_conversion::FastDtoa(fabs((double)f), double_conversion::FAST_DTOA_SHORTEST_SINGLE, 0, v, &len, &point);
      if (!fast) { ++j.counts[2]; if (Sampled((uint32_t)b, 9)) cls += "big,"; }
      // significant digits of the text: digits before 'e' without leading zeros and without the padding
      // zeros of an integer-valued decimal ("ddd000")
      std::string dg; bool dot = false;
      for (char *p = t; *p && *p != 'e'; ++p) { if (*p == '.') dot = true; else if (*p >= '0' && *p <= '9') dg += *p; }
      size_t a = dg.find_first_not_of('0');
      dg = a == std::string::npos ? "" : dg.substr(a);
      if (!dot) while (!dg.empty() && dg[dg.size() - 1] == '0') dg.erase(dg.size() - 1);
      if (dg.size() == 9) { ++j.counts[3]; if (Sampled((uint32_t)b, 14)) cls += "d9,"; }
    }
    if (!cls.empty()) {
      cls.erase(cls.size() - 1);
      snprintf(line, sizeof line, "%u %s text=%s%s", (unsigned)b, cls.c_str(), t, "");
      j.out += line;
      if (dist >= 0) { snprintf(line, sizeof line, " dulps=%.3g", dist); j.out += line; }
      j.out += '\n';
    }
  }
  return NULL;
}

int Classify(uint64_t lo, uint64_t hi, int threads) {
  std::vector<ClassJob> jobs(threads);
  uint64_t span = (hi - lo + threads - 1) / threads;
  for (int t = 0; t < threads; ++t) {
    jobs[t].lo = std::min(hi, lo + span * t); jobs[t].hi = std::min(hi, jobs[t].lo + span);
    memset(jobs[t].counts, 0, sizeof jobs[t].counts);
    pthread_create(&jobs[t].th, NULL, RunClassify, &jobs[t]);
  }
  uint64_t c[6] = {0, 0, 0, 0, 0, 0};
  for (int t = 0; t < threads; ++t) {
    pthread_join(jobs[t].th, NULL);
    fputs(jobs[t].out.c_str(), stdout);
    for (int k = 0; k < 6; ++k) c[k] += jobs[t].counts[k];
  }
  printf("# totals dr=%" PRIu64 " mid=%" PRIu64 " big=%" PRIu64 " d9=%" PRIu64 " pow2=%" PRIu64 " tie=%" PRIu64 "\n", c[0], c[1], c[2], c[3], c[4], c[5]);
  return 0;
}

// doubles: n pseudo-random finite doubles; the wider format is x87 long double (64-bit significand)
struct Class64Job { uint64_t n, seed; std::string out; pthread_t th; };
void *RunClassify64(void *arg) {
  Class64Job &j = *static_cast<Class64Job*>(arg);
  uint64_t x = j.seed * 0x9E3779B97F4A7C15ULL + 12345;
  char line[200];
  for (uint64_t i = 0; i < j.n; ++i) {
    x ^= x << 13; x ^= x >> 7; x ^= x << 17;
    double v = FromBits<double>(x);
    if (v != v || std::isinf(v) || v == 0) continue;
    char t[64];
    char *e = util::ToString(v, t); *e = 0;
    long double w = strtold(t, NULL);
    double g = (double)w;
    double up = nextafter(g, INFINITY), dn = nextafter(g, -INFINITY);
    if (std::isinf(up) || std::isinf(dn) || std::isinf(g)) continue;
    long double ulp = nextafterl(fabsl(w), INFINITY) - fabsl(w);
    long double best = std::min(fabsl(w - ((long double)g + (long double)up) * 0.5L), fabsl(w - ((long double)g + (long double)dn) * 0.5L)) / ulp;
    bool dr = ToBits(strtod(t, NULL)) == x && ToBits(g) != x;
    if (best <= 1.0L || dr) {
      snprintf(line, sizeof line, "%" PRIu64 " %s text=%s ldulps=%.3Lg\n", x, dr ? "dr,mid" : "mid", t, best);
      j.out += line;
    }
  }
  return NULL;
}
int Classify64(uint64_t n, uint64_t seed, int threads) {
  std::vector<Class64Job> jobs(threads);
  for (int t = 0; t < threads; ++t) {
    jobs[t].n = n / threads; jobs[t].seed = seed * 1000 + t + 1;
    pthread_create(&jobs[t].th, NULL, RunClassify64, &jobs[t]);
  }
  for (int t = 0; t < threads; ++t) { pthread_join(jobs[t].th, NULL); fputs(jobs[t].out.c_str(), stdout); }
  return 0;
}

// ---------------------------------------------------------------- ARPA files written by kenlm tools
// Every probability / back-off token: FilePiece::ReadFloat(token) bits == strtof(token) bits, and printing the
// value again with util::ToString gives the token itself (the tools print with the same shortest formatter).
int Arpa(const char *path) {
  std::vector<std::string> tokens;
  {
    util::FilePiece in(path);
    int order = 0;
    try {
      while (true) {
        StringPiece l = in.ReadLine();
        std::string line(l.data(), l.size());
        if (line.empty()) continue;
        if (line[0] == '\\') {
          order = 0;
          if (line.size() > 8 && line.compare(line.size() - 7, 7, "-grams:") == 0) order = atoi(line.c_str() + 1);
          continue;
        }
        if (!order) continue;
        std::vector<std::string> f;
        size_t b = 0;
        while (true) { size_t tpos = line.find('\t', b); f.push_back(line.substr(b, tpos - b)); if (tpos == std::string::npos) break; b = tpos + 1; }
        tokens.push_back(f[0]);
        if (f.size() >= 3) tokens.push_back(f.back());
      }
    } catch (const util::EndOfFileException &e) {}
  }
  std::string batch;
  for (size_t i = 0; i < tokens.size(); ++i) { batch += tokens[i]; batch += '\n'; }
  uint64_t bad_read = 0, bad_text = 0;
  std::vector<std::string> first;
  int fd = MemFD();
  WriteAll(fd, batch.data(), batch.size());
  lseek(fd, 0, SEEK_SET);
  if (!tokens.empty()) {
    util::FilePiece f(fd, "tokens", NULL, 1 << 20);
    for (size_t i = 0; i < tokens.size(); ++i) {
      float v; bool ok = true;
      try { v = f.ReadFloat(); } catch (const std::exception &e) { ok = false; v = 0; try { f.ReadLine(); } catch (...) {} }
      float ref = strtof(tokens[i].c_str(), NULL);
      if (!ok || ToBits(v) != ToBits(ref)) {
        ++bad_read;
        if (first.size() < 5) first.push_back("token " + tokens[i] + (ok ? " read differently from strtof" : " read error"));
      }
      char t[64]; char *e = util::ToString(ref, t);
      if (std::string(t, e - t) != tokens[i]) {
        ++bad_text;
        if (first.size() < 5) first.push_back("token " + tokens[i] + " re-prints as " + std::string(t, e - t));
      }
    }
  } else close(fd);
  printf("tokens=%zu read_mismatches=%" PRIu64 " reprint_mismatches=%" PRIu64 "\n", tokens.size(), bad_read, bad_text);
  for (size_t i = 0; i < first.size(); ++i) printf("first: %s\n", first[i].c_str());
  return 0;
}

// ---------------------------------------------------------------- guided search helper
template <class T> int FindClass(int neg, int ndigits, int point, uint64_t seed) {
  uint64_t x = seed * 6364136223846793005ULL + 1442695040888963407ULL;
  for (int attempt = 0; attempt < 200000; ++attempt) {
    std::string s = neg ? "-0." : "0.";
    for (int i = 0; i < ndigits; ++i) {
      x = x * 6364136223846793005ULL + 1442695040888963407ULL;
      int d = (int)((x >> 33) % 10);
      if ((i == 0 || i == ndigits - 1) && d == 0) d = 1 + (int)((x >> 40) % 9);
      if (attempt == 0) d = (i == 0) ? 1 : (i == ndigits - 1 ? 1 : 0);     // simplest member first: 100…01
      s += (char)('0' + d);
    }
    char e[16]; snprintf(e, sizeof e, "e%d", point);
    s += e;
    T v = sizeof(T) == 4 ? (T)strtof(s.c_str(), NULL) : (T)strtod(s.c_str(), NULL);
    if (v == 0 || std::isinf(v) || std::isnan(v)) continue;
    char digits[DoubleToStringConverter::kBase10MaximalLength + 2];
    bool sign; int length, pt;
    DoubleToStringConverter::DoubleToAscii(
        v, sizeof(T) == 4 ? DoubleToStringConverter::SHORTEST_SINGLE : DoubleToStringConverter::SHORTEST, 0,
        digits, sizeof digits, &sign, &length, &pt);
    if (length == ndigits && pt == point && (sign ? 1 : 0) == neg) {
      printf("found %" PRIu64 "\n", (uint64_t)ToBits(v));
      return 0;
    }
  }
  printf("none\n");
  return 0;
}

// ---------------------------------------------------------------- replays
template <class T> int Exact(T v) {
  const size_t reserved = util::ToStringBuf<T>::kBytes;
  char *block = static_cast<char*>(malloc(reserved));   // exactly what CallToString reserves
  char *end = util::ToString(v, block);
  printf("wrote %zu characters into a heap block of %zu bytes\n", (size_t)(end - block), reserved);
  free(block);
  return 0;
}

template <class T> int FileStreamReplay(T v) {
  const size_t reserved = util::ToStringBuf<T>::kBytes;
  int fd = MemFD();
  {
    util::FileStream s(fd, 64);
    std::string fill(64 - reserved, '#');         // Ensure(kBytes) succeeds without a flush: exactly kBytes remain
    s << fill;
    s << v;                                       // in-place write of the number at the end of the malloc'ed buffer
  }
  char buf[256];
  ssize_t n = pread(fd, buf, sizeof buf, 0);
  printf("file has %zd bytes\n", n);
  return 0;
}

}  // namespace

int main(int argc, char **argv) {
  std::string mode = argc > 1 ? argv[1] : "lines";
  if (mode == "lines") return Lines();
  if (mode == "exh-f32" && argc == 5) return Exhaustive(0, strtoull(argv[2], 0, 10), strtoull(argv[3], 0, 10), atoi(argv[4]));
  if (mode == "exh-u32" && argc == 5) return Exhaustive(1, strtoull(argv[2], 0, 10), strtoull(argv[3], 0, 10), atoi(argv[4]));
  if (mode == "exh-i32" && argc == 5) return Exhaustive(2, strtoull(argv[2], 0, 10), strtoull(argv[3], 0, 10), atoi(argv[4]));
  if (mode == "exh-halves" && argc == 5) return Exhaustive(3, strtoull(argv[2], 0, 10), strtoull(argv[3], 0, 10), atoi(argv[4]));
  if (mode == "classify-f32" && argc == 5) return Classify(strtoull(argv[2], 0, 10), strtoull(argv[3], 0, 10), atoi(argv[4]));
  if (mode == "classify-f64" && argc == 5) return Classify64(strtoull(argv[2], 0, 10), strtoull(argv[3], 0, 10), atoi(argv[4]));
  if (mode == "arpa" && argc == 3) return Arpa(argv[2]);
  if (mode == "find-class" && argc == 7) {
    std::string t = argv[2];
    if (t == "f32") return FindClass<float>(atoi(argv[3]), atoi(argv[4]), atoi(argv[5]), strtoull(argv[6], 0, 10));
    return FindClass<double>(atoi(argv[3]), atoi(argv[4]), atoi(argv[5]), strtoull(argv[6], 0, 10));
  }
  if ((mode == "exact" || mode == "filestream") && argc == 4) {
    std::string t = argv[2];
    bool ex = mode == "exact";
    if (t == "f32") { float v = FromBits<float>((uint32_t)strtoull(argv[3], 0, 10)); return ex ? Exact(v) : FileStreamReplay(v); }
    if (t == "f64") { double v = FromBits<double>(strtoull(argv[3], 0, 10)); return ex ? Exact(v) : FileStreamReplay(v); }
    if (t == "u64") { uint64_t v = strtoull(argv[3], 0, 10); return ex ? Exact(v) : FileStreamReplay(v); }
    if (t == "i64") { int64_t v = strtoll(argv[3], 0, 10); return ex ? Exact(v) : FileStreamReplay(v); }
  }
  fprintf(stderr, "usage: see the head of harness/c19.cc\n");
  return 2;
}
