// Harness for stream `primitives` (C20): executes each operation line on the real
// util/bit_packing.hh, util/sorted_uniform.hh, util/probing_hash_table.hh and prints one
// canonical result line, mirrored by lean/Driver/C20.lean.
#include "util/bit_packing.hh"
#include "util/sorted_uniform.hh"
#include <cstdio>
#include <cstdlib>
#include <cstring>
#include <iostream>
#include <sstream>
#include <string>
#include <vector>

static int hexv(char c) { return c <= '9' ? c - '0' : (c | 32) - 'a' + 10; }

int main() {
  std::string line;
  std::vector<uint8_t> mem;   // logical size; allocation has 8 spare bytes for the 64-bit window
  uint8_t *buf = NULL;
  size_t size = 0;
  std::vector<uint64_t> arr;
  std::vector<uint32_t> arr32;
  while (std::getline(std::cin, line)) {
    std::istringstream in(line);
    std::string op;
    in >> op;
    if (op == "init") {
      std::string hex; in >> hex;
      size = hex.size() / 2;
      free(buf);
      buf = (uint8_t*)calloc(size + 8, 1);
      for (size_t i = 0; i < size; ++i) buf[i] = hexv(hex[2*i]) * 16 + hexv(hex[2*i+1]);
      puts("ok");
    } else if (op == "w57") {
      uint64_t o, l, v; in >> o >> l >> v;
      util::WriteInt57(buf, o, (uint8_t)l, v); puts("ok");
    } else if (op == "r57") {
      uint64_t o, l; in >> o >> l;
      uint64_t mask = (l >= 64) ? ~0ULL : ((1ULL << l) - 1);
      printf("%llu\n", (unsigned long long)util::ReadInt57(buf, o, (uint8_t)l, mask));
    } else if (op == "w25") {
      uint64_t o, l, v; in >> o >> l >> v;
      util::WriteInt25(buf, o, (uint8_t)l, (uint32_t)v); puts("ok");
    } else if (op == "r25") {
      uint64_t o, l; in >> o >> l;
      printf("%llu\n", (unsigned long long)util::ReadInt25(buf, o, (uint8_t)l, (uint32_t)((1ULL << l) - 1)));
    } else if (op == "wf32") {
      uint64_t o, v; in >> o >> v;
      util::FloatEnc e; e.i = (uint32_t)v;
      util::WriteFloat32(buf, o, e.f); puts("ok");
    } else if (op == "rf32") {
      uint64_t o; in >> o;
      util::FloatEnc e; e.f = util::ReadFloat32(buf, o);
      printf("%u\n", e.i);
    } else if (op == "wf31") {
      uint64_t o, v; in >> o >> v;
      util::FloatEnc e; e.i = (uint32_t)v;
      util::WriteNonPositiveFloat31(buf, o, e.f); puts("ok");
    } else if (op == "rf31") {
      uint64_t o; in >> o;
      util::FloatEnc e; e.f = util::ReadNonPositiveFloat31(buf, o);
      printf("%u\n", e.i);
    } else if (op == "arr") {
      arr.clear();
      uint64_t x;
      while (in >> x) arr.push_back(x);
      arr32.assign(arr.begin(), arr.end());
      puts("ok");
    } else if (op == "suf32") {
      uint64_t k; in >> k;
      const uint32_t *out = NULL;
      const uint32_t *b = arr32.empty() ? NULL : &arr32[0];
      bool f = util::SortedUniformFind<const uint32_t*, util::IdentityAccessor<uint32_t>, util::Pivot32>(
          util::IdentityAccessor<uint32_t>(), b, b + arr32.size(), (uint32_t)k, out);
      puts(!f ? "absent" : (*out == (uint32_t)k ? "found" : "found-wrong"));
    } else if (op == "suf64") {
      uint64_t k; in >> k;
      const uint64_t *out = NULL;
      const uint64_t *b = arr.empty() ? NULL : &arr[0];
      bool f = util::SortedUniformFind<const uint64_t*, util::IdentityAccessor<uint64_t>, util::Pivot64>(
          util::IdentityAccessor<uint64_t>(), b, b + arr.size(), k, out);
      puts(!f ? "absent" : (*out == k ? "found" : "found-wrong"));
    } else if (op == "bsuf32") {
      // the trie call site: BoundedSortedUniformFind(begin - 1, 0, end, max_vocab, key)
      uint64_t k, mx; in >> k >> mx;
      const uint32_t *out = NULL;
      std::vector<uint32_t> padded(arr32.size() + 2, 0xdeadbeef);   // guards before and after: must never be read
      for (size_t i = 0; i < arr32.size(); ++i) padded[i + 1] = arr32[i];
      const uint32_t *b = &padded[1];
      bool f = util::BoundedSortedUniformFind<const uint32_t*, util::IdentityAccessor<uint32_t>, util::Pivot32>(
          util::IdentityAccessor<uint32_t>(), b - 1, (uint32_t)0, b + arr32.size(), (uint32_t)mx, (uint32_t)k, out);
      puts(!f ? "absent" : (*out == (uint32_t)k && out >= b && out < b + arr32.size() ? "found" : "found-wrong"));
    } else if (op == "bsuf64") {
      uint64_t k, mx; in >> k >> mx;
      const uint64_t *out = NULL;
      std::vector<uint64_t> padded(arr.size() + 2, 0xdeadbeefdeadbeefULL);
      for (size_t i = 0; i < arr.size(); ++i) padded[i + 1] = arr[i];
      const uint64_t *b = &padded[1];
      bool f = util::BoundedSortedUniformFind<const uint64_t*, util::IdentityAccessor<uint64_t>, util::Pivot64>(
          util::IdentityAccessor<uint64_t>(), b - 1, (uint64_t)0, b + arr.size(), mx, k, out);
      puts(!f ? "absent" : (*out == k && out >= b && out < b + arr.size() ? "found" : "found-wrong"));
    } else if (op == "bin") {
      uint64_t k; in >> k;
      const uint64_t *out = NULL;
      const uint64_t *b = arr.empty() ? NULL : &arr[0];
      bool f = util::BinaryFind<const uint64_t*, util::IdentityAccessor<uint64_t> >(
          util::IdentityAccessor<uint64_t>(), b, b + arr.size(), k, out);
      puts(!f ? "absent" : (*out == k ? "found" : "found-wrong"));
    } else if (op == "dump") {
      for (size_t i = 0; i < size; ++i) printf("%02x", buf[i]);
      puts("");
    } else if (op == "rb") {
      uint64_t v; in >> v;
      printf("%u\n", (unsigned)util::RequiredBits(v));
    } else {
      puts("bad-op");
    }
  }
  free(buf);
  return 0;
}
