// Harness for stream `primitives` (C20): executes each operation line on the real
// util/bit_packing.hh, util/sorted_uniform.hh, util/probing_hash_table.hh and prints one
// canonical result line, mirrored by lean/Driver/C20.lean.
#include "util/bit_packing.hh"
#include <cstdio>
#include <cstdlib>
#include <cstring>
#include <iostream>
#include <sstream>
#include <string>
#include <vector>

static int hexv(char c) { return c <= '9' ? c - '0' : (c | 32) - 'a' + 10; }

int main() {
  std::string line;
  std::vector<uint8_t> mem;   // logical size; allocation has 8 spare bytes for the 64-bit window
  uint8_t *buf = NULL;
  size_t size = 0;
  while (std::getline(std::cin, line)) {
    std::istringstream in(line);
    std::string op;
    in >> op;
    if (op == "init") {
      std::string hex; in >> hex;
      size = hex.size() / 2;
      free(buf);
      buf = (uint8_t*)calloc(size + 8, 1);
      for (size_t i = 0; i < size; ++i) buf[i] = hexv(hex[2*i]) * 16 + hexv(hex[2*i+1]);
      puts("ok");
    } else if (op == "w57") {
      uint64_t o, l, v; in >> o >> l >> v;
      util::WriteInt57(buf, o, (uint8_t)l, v); puts("ok");
    } else if (op == "r57") {
      uint64_t o, l; in >> o >> l;
      uint64_t mask = (l >= 64) ? ~0ULL : ((1ULL << l) - 1);
      printf("%llu\n", (unsigned long long)util::ReadInt57(buf, o, (uint8_t)l, mask));
    } else if (op == "w25") {
      uint64_t o, l, v; in >> o >> l >> v;
      util::WriteInt25(buf, o, (uint8_t)l, (uint32_t)v); puts("ok");
    } else if (op == "r25") {
      uint64_t o, l; in >> o >> l;
      printf("%llu\n", (unsigned long long)util::ReadInt25(buf, o, (uint8_t)l, (uint32_t)((1ULL << l) - 1)));
    } else if (op == "wf32") {
      uint64_t o, v; in >> o >> v;
      util::FloatEnc e; e.i = (uint32_t)v;
      util::WriteFloat32(buf, o, e.f); puts("ok");
    } else if (op == "rf32") {
      uint64_t o; in >> o;
      util::FloatEnc e; e.f = util::ReadFloat32(buf, o);
      printf("%u\n", e.i);
    } else if (op == "wf31") {
      uint64_t o, v; in >> o >> v;
      util::FloatEnc e; e.i = (uint32_t)v;
      util::WriteNonPositiveFloat31(buf, o, e.f); puts("ok");
    } else if (op == "rf31") {
      uint64_t o; in >> o;
      util::FloatEnc e; e.f = util::ReadNonPositiveFloat31(buf, o);
      printf("%u\n", e.i);
    } else if (op == "dump") {
      for (size_t i = 0; i < size; ++i) printf("%02x", buf[i]);
      puts("");
    } else if (op == "rb") {
      uint64_t v; in >> v;
      printf("%u\n", (unsigned)util::RequiredBits(v));
    } else {
      puts("bad-op");
    }
  }
  free(buf);
  return 0;
}
