// Harness for stream `primitives` (C20): executes each operation line on the real
// util/bit_packing.hh, util/sorted_uniform.hh, util/probing_hash_table.hh and prints one
// canonical result line, mirrored by lean/Driver/C20.lean.
#include "util/bit_packing.hh"
#include "util/sorted_uniform.hh"
#include "util/probing_hash_table.hh"
#include <cstdio>
#include <cstdlib>
#include <cstring>
#include <iostream>
#include <sstream>
#include <string>
#include <vector>

// ---- stream `probing`: the real ProbingHashTable<…, DivMod>, <…, Power2Mod> and AutoProbing
struct PEntry {
  typedef uint64_t Key;
  uint64_t key, value;
  Key GetKey() const { return key; }
  void SetKey(Key k) { key = k; }
};
struct ScriptHash {   // id = util::IdentityHash; mul c = k*c mod 2^64; shr c = k >> c
  int kind; uint64_t c;
  ScriptHash() : kind(0), c(0) {}
  uint64_t operator()(uint64_t k) const { return kind == 0 ? util::IdentityHash()(k) : kind == 1 ? k * c : (c >= 64 ? 0 : k >> c); }
};
static bool ParseHash(std::istream &in, ScriptHash &h) {
  std::string k; in >> k >> h.c;
  if (k == "id") h.kind = 0; else if (k == "mul") h.kind = 1; else if (k == "shr") h.kind = 2; else return false;
  return true;
}
typedef util::ProbingHashTable<PEntry, ScriptHash, std::equal_to<uint64_t>, util::DivMod> DivTable;
typedef util::ProbingHashTable<PEntry, ScriptHash, std::equal_to<uint64_t>, util::Power2Mod> P2Table;
typedef util::AutoProbing<PEntry, ScriptHash> AutoTable;

template <class T> static void DumpTable(const T &t, uint64_t invalid, size_t entries) {
  size_t n = t.RawEnd() - t.RawBegin();
  printf("%zu %zu", n, entries);
  for (size_t p = 0; p < n; ++p) {
    const PEntry &e = t.RawBegin()[p];
    if (e.key != invalid) printf(" %zu:%llu:%llu", p, (unsigned long long)e.key, (unsigned long long)e.value);
  }
  puts("");
}

// a fixed-size table of either modulus policy over memory owned here
struct Fixed {
  bool p2; uint64_t invalid; size_t n;
  PEntry *mem;
  DivTable d; P2Table p;
  Fixed() : p2(false), invalid(0), n(0), mem(NULL) {}
  ~Fixed() { free(mem); }
  static PEntry *Alloc(size_t n, uint64_t fill_key) {
    PEntry *m = (PEntry*)malloc(n * sizeof(PEntry));
    for (size_t i = 0; i < n; ++i) { m[i].key = fill_key; m[i].value = 0xABABABABABABABABULL; }
    return m;
  }
  // the current table is replaced only if the constructor accepts the size (as in the driver)
  bool Init(bool p2_, size_t n_, uint64_t inv, const ScriptHash &h) {
    PEntry *m = Alloc(n_, inv);
    try {
      if (p2_) { P2Table t(m, n_ * sizeof(PEntry), inv, h); p = t; }
      else { DivTable t(m, n_ * sizeof(PEntry), inv, h); d = t; }
    } catch (const util::ProbingSizeException &) { free(m); return false; }
    free(mem); mem = m;
    p2 = p2_; n = n_; invalid = inv;
    return true;
  }
  template <class T> void InsertT(T &t, const PEntry &e) {
    try {
      PEntry *i = t.Insert(e);
      if (i < mem || i >= mem + n || i->key != e.key) puts("bad-iterator"); else printf("ok %zu\n", (size_t)(i - mem));
    }
    catch (const util::ProbingSizeException &) { puts("full"); }
  }
  template <class T> void FoiT(T &t, const PEntry &e) {
    try {
      PEntry *out = NULL;
      bool f = t.FindOrInsert(e, out);
      if (out < mem || out >= mem + n || out->key != e.key) puts("bad-iterator");
      else if (f) printf("found %zu %llu\n", (size_t)(out - mem), (unsigned long long)out->value);
      else printf("new %zu\n", (size_t)(out - mem));
    } catch (const util::ProbingSizeException &) { puts("full"); }
  }
  template <class T> void FindT(const T &t, uint64_t k) {
    const PEntry *out = NULL;
    if (t.Find(k, out)) printf("found %zu %llu\n", (size_t)(out - mem), (unsigned long long)out->value);
    else puts("absent");
  }
  template <class T> void DoubleT(T &t, bool clear_new) {
    // new memory: old content copied, new half garbage (clear_new = true) or already invalid (false)
    PEntry *m = Alloc(2 * n, clear_new ? 0x5A5A5A5A5A5A5A5AULL ^ invalid ^ 1 : invalid);
    memcpy(m, mem, n * sizeof(PEntry));
    free(mem); mem = m;
    t.Double(mem, clear_new);
    n *= 2;
    puts("ok");
  }
};

static int hexv(char c) { return c <= '9' ? c - '0' : (c | 32) - 'a' + 10; }

int main() {
  std::string line;
  std::vector<uint8_t> mem;   // logical size; allocation has 8 spare bytes for the 64-bit window
  uint8_t *buf = NULL;
  size_t size = 0;
  std::vector<uint64_t> arr;
  std::vector<uint32_t> arr32;
  Fixed fx;
  fx.Init(false, 1, 0, ScriptHash());   // the driver's initial state: one empty bucket
  AutoTable *au = NULL;
  uint64_t au_invalid = 0;
  while (std::getline(std::cin, line)) {
    std::istringstream in(line);
    std::string op;
    in >> op;
    if (op == "init") {
      std::string hex; in >> hex;
      size = hex.size() / 2;
      free(buf);
      buf = (uint8_t*)calloc(size + 8, 1);
      for (size_t i = 0; i < size; ++i) buf[i] = hexv(hex[2*i]) * 16 + hexv(hex[2*i+1]);
      puts("ok");
    } else if (op == "w57") {
      uint64_t o, l, v; in >> o >> l >> v;
      util::WriteInt57(buf, o, (uint8_t)l, v); puts("ok");
    } else if (op == "r57") {
      uint64_t o, l; in >> o >> l;
      uint64_t mask = (l >= 64) ? ~0ULL : ((1ULL << l) - 1);
      printf("%llu\n", (unsigned long long)util::ReadInt57(buf, o, (uint8_t)l, mask));
    } else if (op == "w25") {
      uint64_t o, l, v; in >> o >> l >> v;
      util::WriteInt25(buf, o, (uint8_t)l, (uint32_t)v); puts("ok");
    } else if (op == "r25") {
      uint64_t o, l; in >> o >> l;
      printf("%llu\n", (unsigned long long)util::ReadInt25(buf, o, (uint8_t)l, (uint32_t)((1ULL << l) - 1)));
    } else if (op == "wf32") {
      uint64_t o, v; in >> o >> v;
      util::FloatEnc e; e.i = (uint32_t)v;
      util::WriteFloat32(buf, o, e.f); puts("ok");
    } else if (op == "rf32") {
      uint64_t o; in >> o;
      util::FloatEnc e; e.f = util::ReadFloat32(buf, o);
      printf("%u\n", e.i);
    } else if (op == "wf31") {
      uint64_t o, v; in >> o >> v;
      util::FloatEnc e; e.i = (uint32_t)v;
      util::WriteNonPositiveFloat31(buf, o, e.f); puts("ok");
    } else if (op == "rf31") {
      uint64_t o; in >> o;
      util::FloatEnc e; e.f = util::ReadNonPositiveFloat31(buf, o);
      printf("%u\n", e.i);
    } else if (op == "arr") {
      arr.clear();
      uint64_t x;
      while (in >> x) arr.push_back(x);
      arr32.assign(arr.begin(), arr.end());
      puts("ok");
    } else if (op == "suf32") {
      uint64_t k; in >> k;
      const uint32_t *out = NULL;
      const uint32_t *b = arr32.empty() ? NULL : &arr32[0];
      bool f = util::SortedUniformFind<const uint32_t*, util::IdentityAccessor<uint32_t>, util::Pivot32>(
          util::IdentityAccessor<uint32_t>(), b, b + arr32.size(), (uint32_t)k, out);
      puts(!f ? "absent" : (*out == (uint32_t)k ? "found" : "found-wrong"));
    } else if (op == "suf64") {
      uint64_t k; in >> k;
      const uint64_t *out = NULL;
      const uint64_t *b = arr.empty() ? NULL : &arr[0];
      bool f = util::SortedUniformFind<const uint64_t*, util::IdentityAccessor<uint64_t>, util::Pivot64>(
          util::IdentityAccessor<uint64_t>(), b, b + arr.size(), k, out);
      puts(!f ? "absent" : (*out == k ? "found" : "found-wrong"));
    } else if (op == "bsuf32") {
      // the trie call site: BoundedSortedUniformFind(begin - 1, 0, end, max_vocab, key)
      uint64_t k, mx; in >> k >> mx;
      const uint32_t *out = NULL;
      std::vector<uint32_t> padded(arr32.size() + 2, 0xdeadbeef);   // guards before and after: must never be read
      for (size_t i = 0; i < arr32.size(); ++i) padded[i + 1] = arr32[i];
      const uint32_t *b = &padded[1];
      bool f = util::BoundedSortedUniformFind<const uint32_t*, util::IdentityAccessor<uint32_t>, util::Pivot32>(
          util::IdentityAccessor<uint32_t>(), b - 1, (uint32_t)0, b + arr32.size(), (uint32_t)mx, (uint32_t)k, out);
      puts(!f ? "absent" : (*out == (uint32_t)k && out >= b && out < b + arr32.size() ? "found" : "found-wrong"));
    } else if (op == "bsuf64") {
      uint64_t k, mx; in >> k >> mx;
      const uint64_t *out = NULL;
      std::vector<uint64_t> padded(arr.size() + 2, 0xdeadbeefdeadbeefULL);
      for (size_t i = 0; i < arr.size(); ++i) padded[i + 1] = arr[i];
      const uint64_t *b = &padded[1];
      bool f = util::BoundedSortedUniformFind<const uint64_t*, util::IdentityAccessor<uint64_t>, util::Pivot64>(
          util::IdentityAccessor<uint64_t>(), b - 1, (uint64_t)0, b + arr.size(), mx, k, out);
      puts(!f ? "absent" : (*out == k && out >= b && out < b + arr.size() ? "found" : "found-wrong"));
    } else if (op == "bin") {
      uint64_t k; in >> k;
      const uint64_t *out = NULL;
      const uint64_t *b = arr.empty() ? NULL : &arr[0];
      bool f = util::BinaryFind<const uint64_t*, util::IdentityAccessor<uint64_t> >(
          util::IdentityAccessor<uint64_t>(), b, b + arr.size(), k, out);
      puts(!f ? "absent" : (*out == k ? "found" : "found-wrong"));
    } else if (op == "dump") {
      for (size_t i = 0; i < size; ++i) printf("%02x", buf[i]);
      puts("");
    } else if (op == "pnew") {
      std::string md; uint64_t n, inv; ScriptHash h;
      in >> md >> n >> inv;
      if (!ParseHash(in, h) || (md != "div" && md != "p2")) { puts("bad-op"); continue; }
      puts(fx.Init(md == "p2", n, inv, h) ? "ok" : "badsize");
    } else if (op == "ins" || op == "foi") {
      PEntry e; in >> e.key >> e.value;
      if (op == "ins") { if (fx.p2) fx.InsertT(fx.p, e); else fx.InsertT(fx.d, e); }
      else { if (fx.p2) fx.FoiT(fx.p, e); else fx.FoiT(fx.d, e); }
    } else if (op == "find") {
      uint64_t k; in >> k;
      if (fx.p2) fx.FindT(fx.p, k); else fx.FindT(fx.d, k);
    } else if (op == "size") {
      printf("%zu\n", fx.p2 ? fx.p.SizeNoSerialization() : fx.d.SizeNoSerialization());
    } else if (op == "pdump") {
      if (fx.p2) DumpTable(fx.p, fx.invalid, fx.p.SizeNoSerialization()); else DumpTable(fx.d, fx.invalid, fx.d.SizeNoSerialization());
    } else if (op == "dbl") {
      std::string how; in >> how;   // optional "noclear": the caller pre-initialised the new half
      if (fx.p2) fx.DoubleT(fx.p, how != "noclear"); else fx.DoubleT(fx.d, how != "noclear");
    } else if (op == "anew") {
      uint64_t init; ScriptHash h;
      in >> init >> au_invalid;
      if (!ParseHash(in, h)) { puts("bad-op"); continue; }
      delete au;
      au = new AutoTable(init, au_invalid, h);
      printf("ok %zu\n", (size_t)(au->RawEnd() - au->RawBegin()));
    } else if (op == "ains") {
      PEntry e; in >> e.key >> e.value;
      PEntry *i = au->Insert(e);
      // the returned iterator must designate the entry inside the (possibly relocated) table
      if (i < au->RawBegin() || i >= au->RawEnd() || i->key != e.key) puts("bad-iterator");
      else printf("ok %zu\n", (size_t)(i - au->RawBegin()));
    } else if (op == "afoi") {
      PEntry e; in >> e.key >> e.value;
      try {
        PEntry *out = NULL;
        bool f = au->FindOrInsert(e, out);
        if (out < au->RawBegin() || out >= au->RawEnd() || out->key != e.key) puts("bad-iterator");
        else if (f) printf("found %zu %llu\n", (size_t)(out - au->RawBegin()), (unsigned long long)out->value);
        else printf("new %zu\n", (size_t)(out - au->RawBegin()));
      } catch (const util::ProbingSizeException &) { puts("full"); }
    } else if (op == "afind") {
      uint64_t k; in >> k;
      const PEntry *out = NULL;
      if (au->Find(k, out)) printf("found %zu %llu\n", (size_t)(out - au->RawBegin()), (unsigned long long)out->value);
      else puts("absent");
    } else if (op == "asize") {
      printf("%zu\n", au->Size());
    } else if (op == "adump") {
      DumpTable(*au, au_invalid, au->Size());
    } else if (op == "rb") {
      uint64_t v; in >> v;
      printf("%u\n", (unsigned)util::RequiredBits(v));
    } else {
      puts("bad-op");
    }
  }
  free(buf);
  delete au;
  return 0;
}
