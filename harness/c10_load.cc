// Harness for stream `loader-fuzz` (C10): constructs a model of a requested class from a file path
// with the REAL loader (ASan+UBSan build of the library, asserts on) and reports what happened.
//
// One job per stdin line:
//     <id> <class P|R|T|A|Q|B> <path> [enum=0|1] [nq=<n>] [seed=<n>] [load=<0..4>] [mult=<f>] [tmp=<dir>]
//          [write=<binary to write while loading an ARPA> vocab=0|1] [abits=<n>] [pbits=<n>] [bbits=<n>] [mem=<building_memory bytes>]
// Every job runs in a forked child (so a crash / hang / sanitizer report of one mutant is observable and
// does not take the others down); the parent prints exactly one line per job:
//     <id> ok bound=<b> order=<o> digest=<hex>        model constructed, nq in-vocabulary queries ran
//     <id> exc <class>                                 constructor threw (class: format|config|probing-size|eof|errno|
//                                                      overflow|parse|util|alloc|std|unknown)
//     <id> crash sig=<n>|exit=<n>                      child died (signal, sanitizer report = exit 77/78, assert = SIGABRT)
//     <id> hang                                        child exceeded the per-job time limit (killed)
// stderr of an abnormal child is kept in <tmp>/<id>.err.
#include "lm/model.hh"
#include "lm/enumerate_vocab.hh"
#include "lm/lm_exception.hh"
#include "util/exception.hh"
#include "util/probing_hash_table.hh"
#include "util/file_piece.hh"
#include "util/file.hh"
#include <cstdio>
#include <cstdlib>
#include <cstring>
#include <iostream>
#include <sstream>
#include <string>
#include <vector>
#include <new>
#include <signal.h>
#include <unistd.h>
#include <fcntl.h>
#include <sys/wait.h>
#include <sys/time.h>
#include <sys/resource.h>
#include <time.h>

using namespace lm::ngram;

static uint32_t fbits(float f) { uint32_t u; memcpy(&u, &f, 4); return u; }

struct Names : public lm::EnumerateVocab {
  uint64_t n, bytes;
  Names() : n(0), bytes(0) {}
  void Add(lm::WordIndex index, const StringPiece &str) {
    ++n; bytes += str.size();
    // touch every byte the loader hands us (ASan checks the range)
    volatile unsigned char sink = 0;
    for (size_t i = 0; i < (size_t)str.size(); ++i) sink ^= (unsigned char)str.data()[i];
    (void)index; (void)sink;
  }
};

struct Job {
  std::string id, path, tmp;
  char cls; int enumerate; unsigned nq; uint64_t seed; int load; float mult;
  std::string write; int vocab; int abits, pbits, bbits; uint64_t mem;
  Job() : cls('P'), enumerate(0), nq(200), seed(1), load(-1), mult(1.5f), vocab(1), abits(-1), pbits(-1), bbits(-1), mem(0) {}
};

static const char *Classify(const std::exception &e) {
  if (dynamic_cast<const util::ProbingSizeException*>(&e)) return "probing-size";
  if (dynamic_cast<const lm::ConfigException*>(&e)) return "config";
  if (dynamic_cast<const lm::FormatLoadException*>(&e)) return "format";
  if (dynamic_cast<const lm::LoadException*>(&e)) return "format";
  if (dynamic_cast<const util::EndOfFileException*>(&e)) return "eof";
  if (dynamic_cast<const util::ErrnoException*>(&e)) return "errno";
  if (dynamic_cast<const util::OverflowException*>(&e)) return "overflow";
  if (dynamic_cast<const util::ParseNumberException*>(&e)) return "parse";
  if (dynamic_cast<const util::Exception*>(&e)) return "util";
  if (dynamic_cast<const std::bad_alloc*>(&e)) return "alloc";
  return "std";
}

static uint64_t Next(uint64_t &s) { s = s * 6364136223846793005ULL + 1442695040888963407ULL; return s >> 33; }

template <class M> static void Run(const Job &j) {
  Config config;
  config.messages = NULL; config.arpa_complain = Config::NONE; config.show_progress = false;
  config.unknown_missing = lm::SILENT; config.sentence_marker_missing = lm::SILENT;
  config.positive_log_probability = lm::SILENT;
  config.probing_multiplier = j.mult;
  config.temporary_directory_prefix = j.tmp + "/t" + j.id + "_";
  if (j.load >= 0) config.load_method = static_cast<util::LoadMethod>(j.load);
  if (!j.write.empty()) { config.write_mmap = j.write.c_str(); config.include_vocab = j.vocab != 0; }
  if (j.abits >= 0) config.pointer_bhiksha_bits = j.abits;
  if (j.pbits >= 0) config.prob_bits = j.pbits;
  if (j.bbits >= 0) config.backoff_bits = j.bbits;
  if (j.mem) config.building_memory = j.mem;      // trie sort buffer (the code uses at least 1 MB)
  Names names;
  if (j.enumerate) config.enumerate_vocab = &names;
  M *m = NULL;
  try {
    m = new M(j.path.c_str(), config);
  } catch (const std::exception &e) {
    printf("%s exc %s\n", j.id.c_str(), Classify(e));
    fflush(stdout);
    return;
  } catch (...) {
    printf("%s exc unknown\n", j.id.c_str());
    fflush(stdout);
    return;
  }
  // in-vocabulary queries: word ids below the vocabulary bound, chained states + explicit histories
  const lm::WordIndex bound = m->GetVocabulary().Bound();
  uint64_t s = j.seed * 2654435761ULL + 12345, digest = 1469598103934665603ULL;
  State st = (Next(s) & 1) ? m->BeginSentenceState() : m->NullContextState();
  std::vector<lm::WordIndex> hist;
  for (unsigned q = 0; q < j.nq; ++q) {
    lm::WordIndex w = bound ? (lm::WordIndex)(Next(s) % bound) : 0;
    uint64_t k = Next(s) % 16;
    if (k == 0) w = m->GetVocabulary().BeginSentence();
    if (k == 1) w = m->GetVocabulary().EndSentence();
    if (k == 2) { st = m->BeginSentenceState(); hist.clear(); hist.push_back(m->GetVocabulary().BeginSentence()); }
    if (k == 3) { st = m->NullContextState(); hist.clear(); }
    State out, outg, gs;
    memset(&out, 0xAB, sizeof out); memset(&outg, 0xCD, sizeof outg); memset(&gs, 0xEF, sizeof gs);
    lm::FullScoreReturn r = m->FullScore(st, w, out);
    std::vector<lm::WordIndex> rev(hist.rbegin(), hist.rend());
    const lm::WordIndex *rb = rev.empty() ? NULL : &rev[0];
    lm::FullScoreReturn rg = m->FullScoreForgotState(rb, rb + rev.size(), w, outg);
    hist.push_back(w);
    if (hist.size() > 12) hist.erase(hist.begin());
    std::vector<lm::WordIndex> rev2(hist.rbegin(), hist.rend());
    m->GetState(&rev2[0], &rev2[0] + rev2.size(), gs);
    digest = (digest ^ fbits(r.prob)) * 1099511628211ULL;
    digest = (digest ^ (uint64_t)r.ngram_length ^ ((uint64_t)out.length << 8) ^ ((uint64_t)gs.length << 16) ^ ((uint64_t)fbits(rg.prob) << 24)) * 1099511628211ULL;
    if (out.length > KENLM_MAX_ORDER - 1 || gs.length > KENLM_MAX_ORDER - 1 || outg.length > KENLM_MAX_ORDER - 1) {
      printf("%s crash state-length-out-of-range\n", j.id.c_str());
      fflush(stdout);
      delete m;
      return;
    }
    st = out;
  }
  printf("%s ok bound=%u order=%u digest=%016llx enum=%llu\n", j.id.c_str(), (unsigned)bound, (unsigned)m->Order(),
         (unsigned long long)digest, (unsigned long long)names.n);
  fflush(stdout);
  delete m;
}

static void Dispatch(const Job &j) {
  switch (j.cls) {
    case 'P': Run<ProbingModel>(j); break;
    case 'R': Run<RestProbingModel>(j); break;
    case 'T': Run<TrieModel>(j); break;
    case 'A': Run<ArrayTrieModel>(j); break;
    case 'Q': Run<QuantTrieModel>(j); break;
    case 'B': Run<QuantArrayTrieModel>(j); break;
    default: printf("%s exc bad-class\n", j.id.c_str()); fflush(stdout);
  }
}

static double Now() { struct timespec t; clock_gettime(CLOCK_MONOTONIC, &t); return t.tv_sec + t.tv_nsec * 1e-9; }

int main(int argc, char **argv) {
  double limit = argc > 1 ? atof(argv[1]) : 20.0;   // seconds per job
  std::string line;
  int hangs = 0;
  while (std::getline(std::cin, line)) {
    std::istringstream in(line);
    Job j;
    std::string cls;
    if (!(in >> j.id >> cls >> j.path)) continue;
    j.cls = cls[0];
    j.tmp = "/tmp";
    std::string kv;
    while (in >> kv) {
      size_t eq = kv.find('=');
      if (eq == std::string::npos) continue;
      std::string k = kv.substr(0, eq), v = kv.substr(eq + 1);
      if (k == "enum") j.enumerate = atoi(v.c_str());
      else if (k == "nq") j.nq = atoi(v.c_str());
      else if (k == "seed") j.seed = strtoull(v.c_str(), NULL, 10);
      else if (k == "load") j.load = atoi(v.c_str());
      else if (k == "mult") j.mult = atof(v.c_str());
      else if (k == "tmp") j.tmp = v;
      else if (k == "write") j.write = v;
      else if (k == "vocab") j.vocab = atoi(v.c_str());
      else if (k == "abits") j.abits = atoi(v.c_str());
      else if (k == "pbits") j.pbits = atoi(v.c_str());
      else if (k == "bbits") j.bbits = atoi(v.c_str());
      else if (k == "mem") j.mem = strtoull(v.c_str(), NULL, 10);
    }
    fflush(stdout);
    std::string errpath = j.tmp + "/" + j.id + ".err";
    pid_t pid = fork();
    if (pid < 0) { printf("%s crash fork-failed\n", j.id.c_str()); continue; }
    if (pid == 0) {
      int fd = open(errpath.c_str(), O_WRONLY | O_CREAT | O_TRUNC, 0644);
      if (fd >= 0) { dup2(fd, 2); close(fd); }
      // bound the address space a mutated count can ask for (ASan needs a large virtual range: limit data via RLIMIT_FSIZE only)
      struct rlimit fs; fs.rlim_cur = fs.rlim_max = (rlim_t)1 << 30; setrlimit(RLIMIT_FSIZE, &fs);
      Dispatch(j);
      fflush(stdout);
      _exit(0);
    }
    double t0 = Now();
    int status = 0;
    bool hung = false;
    for (;;) {
      pid_t r = waitpid(pid, &status, WNOHANG);
      if (r == pid) break;
      if (Now() - t0 > limit) { kill(pid, SIGKILL); waitpid(pid, &status, 0); hung = true; break; }
      usleep(500);
    }
    if (hung) {
      printf("%s hang\n", j.id.c_str());
      // a tree that hangs once usually hangs hundreds of times: after a few, stop waiting the full limit for each
      if (++hangs >= 4 && limit > 2.0) limit = 2.0;
    }
    else if (WIFSIGNALED(status)) { printf("%s crash sig=%d\n", j.id.c_str(), WTERMSIG(status)); }
    else if (WIFEXITED(status) && WEXITSTATUS(status) != 0) { printf("%s crash exit=%d\n", j.id.c_str(), WEXITSTATUS(status)); }
    else { unlink(errpath.c_str()); }
    fflush(stdout);
  }
  return 0;
}
