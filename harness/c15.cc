// Harness for stream `retry` (C15, tie 1): runs the REAL util::WriteOrThrow / ReadOrThrow /
// ReadOrEOF / PartialRead / ErsatzPRead / ErsatzPWrite and util::FileStream against an OS
// whose answers are scripted per operation line.  The libc entry points read/write/pread/
// pwrite are defined here (an executable's own definition wins over libc for the statically
// compiled util/file.cc); for the scripted descriptor they answer from the script, for any
// other descriptor they go to the kernel.  One canonical result line per operation,
// mirrored by lean/Driver/C15.lean.
//
//   op lines:  write <hex> ; <answers>          answers: k<n> (ok n) | i (EINTR) | e<errno> | z (return 0)
//              pwrite <off> <hex> ; <answers>
//              read <amount> <srchex> ; ...     readeof … | partial …
//              pread <size> <off> <filehex> ; ...
//              stream <bufsize> <op> <op> … ; ...   ops: s:<hex> c:<byte> u64:<v> i64:<v> u32:<v> i32:<v> u16:<v> i16:<v> b:<0|1> f
//   after the script is exhausted the OS is ideal (moves everything it can).
#include "util/file.hh"
#include "util/file_stream.hh"
#include "util/exception.hh"

#include <cerrno>
#include <cstdio>
#include <cstdlib>
#include <cstring>
#include <iostream>
#include <sstream>
#include <string>
#include <vector>
#include <sys/syscall.h>
#include <unistd.h>

namespace {
const int kFakeFD = 1000;
struct Ans { char kind; unsigned long long n; };
std::vector<Ans> script;
size_t next_ans = 0;
std::vector<unsigned char> source;   // what the descriptor still has to deliver (read) / file content (pread)
size_t source_pos = 0;
std::vector<unsigned char> sink;     // bytes accepted by write, in order
std::string call_log;
unsigned long long calls = 0;
bool discard = false;                // after an exception: swallow what an abandoned FileStream flushes

void Log(size_t req, unsigned long long off) {
  char b[64];
  std::snprintf(b, sizeof(b), "%s%zu@%llu", call_log.empty() ? "" : ",", req, off);
  call_log += b;
}
// returns -2 for "ideal"
Ans Next() {
  ++calls;
  if (next_ans < script.size()) return script[next_ans++];
  Ans a; a.kind = 'k'; a.n = ~0ULL; return a;
}
ssize_t Answer(size_t req, size_t avail, size_t *moved) {
  Ans a = Next();
  *moved = 0;
  switch (a.kind) {
    case 'i': errno = EINTR; return -1;
    case 'e': errno = (int)a.n; return -1;
    case 'z': return 0;
    default: {
      size_t r = req < avail ? req : avail;
      if (a.n < r) r = (size_t)a.n;
      *moved = r;
      return (ssize_t)r;
    }
  }
}
int hexv(char c) { return c <= '9' ? c - '0' : (c | 32) - 'a' + 10; }
std::vector<unsigned char> Unhex(const std::string &h) {
  std::vector<unsigned char> out;
  if (h == "-") return out;
  for (size_t i = 0; i + 1 < h.size(); i += 2) out.push_back(hexv(h[i]) * 16 + hexv(h[i + 1]));
  return out;
}
std::string Hex(const std::vector<unsigned char> &v) {
  static const char *d = "0123456789abcdef";
  std::string s;
  for (size_t i = 0; i < v.size(); ++i) { s += d[v[i] >> 4]; s += d[v[i] & 15]; }
  return s.empty() ? "-" : s;
}
} // namespace

extern "C" {
ssize_t write(int fd, const void *buf, size_t n) {
  if (fd != kFakeFD) return syscall(SYS_write, fd, buf, n);
  if (discard) return (ssize_t)n;
  Log(n, 0);
  size_t moved; ssize_t r = Answer(n, n, &moved);
  sink.insert(sink.end(), (const unsigned char*)buf, (const unsigned char*)buf + moved);
  return r;
}
ssize_t read(int fd, void *buf, size_t n) {
  if (fd != kFakeFD) return syscall(SYS_read, fd, buf, n);
  Log(n, 0);
  size_t moved; ssize_t r = Answer(n, source.size() - source_pos, &moved);
  if (moved) std::memcpy(buf, source.data() + source_pos, moved);
  source_pos += moved;
  return r;
}
static ssize_t do_pwrite(int fd, const void *buf, size_t n, off_t off) {
  if (fd != kFakeFD) return syscall(SYS_pwrite64, fd, buf, n, off);
  Log(n, (unsigned long long)off);
  size_t moved; ssize_t r = Answer(n, n, &moved);
  // the positional sink records (offset, bytes) pieces by writing into `source` as the file image
  if (source.size() < (size_t)off + moved) source.resize((size_t)off + moved, 0);
  if (moved) std::memcpy(source.data() + off, buf, moved);
  sink.insert(sink.end(), (const unsigned char*)buf, (const unsigned char*)buf + moved);
  return r;
}
static ssize_t do_pread(int fd, void *buf, size_t n, off_t off) {
  if (fd != kFakeFD) return syscall(SYS_pread64, fd, buf, n, off);
  Log(n, (unsigned long long)off);
  size_t avail = (size_t)off < source.size() ? source.size() - (size_t)off : 0;
  size_t moved; ssize_t r = Answer(n, avail, &moved);
  if (moved) std::memcpy(buf, source.data() + off, moved);
  sink.insert(sink.end(), (const unsigned char*)buf, (const unsigned char*)buf + moved);
  return r;
}
ssize_t pwrite(int fd, const void *buf, size_t n, off_t off) { return do_pwrite(fd, buf, n, off); }
ssize_t pwrite64(int fd, const void *buf, size_t n, off_t off) { return do_pwrite(fd, buf, n, off); }
ssize_t pread(int fd, void *buf, size_t n, off_t off) { return do_pread(fd, buf, n, off); }
ssize_t pread64(int fd, void *buf, size_t n, off_t off) { return do_pread(fd, buf, n, off); }
}

namespace {
void ParseScript(const std::string &s) {
  script.clear(); next_ans = 0; calls = 0; call_log.clear(); sink.clear(); source.clear(); source_pos = 0;
  std::istringstream in(s);
  std::string t;
  while (in >> t) {
    Ans a; a.kind = t[0]; a.n = t.size() > 1 ? std::strtoull(t.c_str() + 1, NULL, 10) : 0;
    script.push_back(a);
  }
}
void Emit(const std::string &res, const std::vector<unsigned char> &moved) {
  std::printf("%s next=%llu moved=%s log=%s\n", res.c_str(), calls, Hex(moved).c_str(), call_log.empty() ? "-" : call_log.c_str());
}
template <class F> std::string Guard(F f) {
  try { f(); return "ok"; }
  catch (const util::EndOfFileException &) { return "eof"; }
  catch (const util::ErrnoException &e) { std::ostringstream o; o << "errno:" << e.Error(); return o.str(); }
  catch (const std::exception &e) { return std::string("other"); }
}
} // namespace

int main() {
  std::string line;
  while (std::getline(std::cin, line)) {
    size_t semi = line.find(';');
    std::string head = line.substr(0, semi), tail = semi == std::string::npos ? "" : line.substr(semi + 1);
    ParseScript(tail);
    std::istringstream in(head);
    std::string op; in >> op;
    if (op == "write") {
      std::string h; in >> h; std::vector<unsigned char> d = Unhex(h);
      std::string r = Guard([&] { util::WriteOrThrow(kFakeFD, d.data(), d.size()); });
      Emit(r, sink);
    } else if (op == "pwrite") {
      unsigned long long off; std::string h; in >> off >> h; std::vector<unsigned char> d = Unhex(h);
      std::string r = Guard([&] { util::ErsatzPWrite(kFakeFD, d.data(), d.size(), off); });
      Emit(r, sink);
    } else if (op == "read" || op == "readeof" || op == "partial") {
      size_t amount; std::string h; in >> amount >> h; source = Unhex(h);
      std::vector<unsigned char> buf(amount + 1, 0xEE);
      size_t got = amount;
      std::string r = Guard([&] {
        if (op == "read") util::ReadOrThrow(kFakeFD, buf.data(), amount);
        else if (op == "readeof") got = util::ReadOrEOF(kFakeFD, buf.data(), amount);
        else got = util::PartialRead(kFakeFD, buf.data(), amount);
      });
      // bytes the OS delivered, in order = source[0, source_pos); the buffer must hold them
      std::vector<unsigned char> moved(source.begin(), source.begin() + source_pos);
      if ((!moved.empty() && std::memcmp(buf.data(), moved.data(), moved.size())) || buf[amount] != 0xEE) r += "!buffer-mismatch";
      if (r == "ok" && got != source_pos) r += "!count-mismatch";
      Emit(r, moved);
    } else if (op == "pread") {
      size_t size; unsigned long long off; std::string h; in >> size >> off >> h; source = Unhex(h);
      std::vector<unsigned char> buf(size + 1, 0xEE);
      std::string r = Guard([&] { util::ErsatzPRead(kFakeFD, buf.data(), size, off); });
      // delivered bytes: recompute from the log is overkill; the buffer prefix that differs from 0xEE fill is
      // ambiguous, so report what the fake OS handed out: track through sink
      Emit(r, sink.empty() ? std::vector<unsigned char>() : sink);
    } else if (op == "stream") {
      size_t bufsize; in >> bufsize;
      std::vector<std::string> ops; std::string t;
      while (in >> t) ops.push_back(t);
      std::string r = Guard([&] {
        util::FileStream *fs = new util::FileStream(kFakeFD, bufsize);
        try {
          for (size_t k = 0; k < ops.size(); ++k) {
            const std::string &o = ops[k];
            size_t colon = o.find(':');
            std::string kind = o.substr(0, colon), arg = colon == std::string::npos ? "" : o.substr(colon + 1);
            if (kind == "s") { std::vector<unsigned char> d = Unhex(arg); *fs << StringPiece(d.empty() ? "" : (const char*)d.data(), d.size()); }
            else if (kind == "c") *fs << (char)std::atoi(arg.c_str());
            else if (kind == "u64") *fs << (uint64_t)std::strtoull(arg.c_str(), NULL, 10);
            else if (kind == "i64") *fs << (int64_t)std::strtoll(arg.c_str(), NULL, 10);
            else if (kind == "u32") *fs << (uint32_t)std::strtoull(arg.c_str(), NULL, 10);
            else if (kind == "i32") *fs << (int32_t)std::strtoll(arg.c_str(), NULL, 10);
            else if (kind == "u16") *fs << (uint16_t)std::strtoull(arg.c_str(), NULL, 10);
            else if (kind == "i16") *fs << (int16_t)std::strtoll(arg.c_str(), NULL, 10);
            else if (kind == "b") *fs << (bool)(arg == "1");
            else if (kind == "f") fs->flush();
          }
          fs->flush();      // what the destructor does; done explicitly so that its exception can be caught
        } catch (...) {
          // the object is abandoned (its destructor would flush again): swallow that flush
          discard = true; delete fs; discard = false;
          throw;
        }
        delete fs;
      });
      Emit(r, sink);
    } else {
      std::puts("bad-op");
    }
    std::fflush(stdout);
  }
  return 0;
}
