"""Build /repo's *current working tree* (hooks on) outside /repo and /verif.

Builds are cached under SCRATCH keyed by a content hash of every source file, so two
consecutive checks on the same tree share one build and any edit to /repo forces a
rebuild.  Nothing registered in MANIFEST depends on the cache being present.
"""
import fcntl
import os
import shutil
import time

from .common import REPO, SCRATCH, VERIF, NPROC, run, sha, log

GUARD = "KPU_KENLM_VERIF"
SRC_DIRS = ("lm", "util", "python", "cmake")
SRC_EXT = (".cc", ".hh", ".h", ".c", ".cpp", ".txt", ".cmake", ".pyx", ".pxd", ".in", ".arpa")

CONFIGS = {
    # CLI tools and libraries the way a user builds them, hooks compiled in (they are no-ops unless installed)
    "tools": dict(build_type="RelWithDebInfo", cxxflags="-O1 -g -UNDEBUG -D%s -Wno-error -w" % GUARD),
    # sanitizer build for in-process harnesses and loader fuzzing; asserts on
    "asan": dict(build_type="RelWithDebInfo",
                 cxxflags="-O1 -g -UNDEBUG -D%s -w -fsanitize=address,undefined -fno-sanitize=alignment "
                          "-fno-sanitize-recover=all -fno-omit-frame-pointer" % GUARD),
}

_tree_hash = None


def tree_hash():
    global _tree_hash
    if _tree_hash is not None:
        return _tree_hash
    parts = []
    paths = [os.path.join(REPO, "CMakeLists.txt")]
    for d in SRC_DIRS:
        for root, dirs, files in os.walk(os.path.join(REPO, d)):
            dirs.sort()
            for fn in sorted(files):
                if fn.endswith(SRC_EXT):
                    paths.append(os.path.join(root, fn))
    import hashlib
    h = hashlib.sha256()
    for p in paths:
        try:
            with open(p, "rb") as f:
                data = f.read()
        except OSError:
            continue
        h.update(os.path.relpath(p, REPO).encode())
        h.update(b"\0")
        h.update(hashlib.sha256(data).digest())
    _tree_hash = h.hexdigest()[:16]
    return _tree_hash


def _prune(keep):
    """Keep at most KEEP_TREES most recent tree builds (VERIF_KEEP_TREES, default 3)."""
    base = os.path.join(SCRATCH, "build")
    if not os.path.isdir(base):
        return
    ents = []
    for n in os.listdir(base):
        p = os.path.join(base, n)
        if os.path.isdir(p) and n != keep:
            ents.append((os.path.getmtime(p), p))
    ents.sort(reverse=True)
    keep_n = int(os.environ.get("VERIF_KEEP_TREES", "4"))
    for _, p in ents[max(keep_n - 1, 0):]:
        shutil.rmtree(p, ignore_errors=True)


def build(config="tools", targets=None, timeout=1800):
    """CMake+Ninja build of the working tree.  Returns (ok, builddir, log)."""
    th = tree_hash()
    base = os.path.join(SCRATCH, "build", th)
    bdir = os.path.join(base, config)
    os.makedirs(base, exist_ok=True)
    lock = open(os.path.join(base, ".lock_" + config), "w")
    fcntl.flock(lock, fcntl.LOCK_EX)
    try:
        stamp = os.path.join(bdir, ".built_" + ("all" if not targets else sha(",".join(sorted(targets)))))
        if os.path.exists(stamp) or os.path.exists(os.path.join(bdir, ".built_all")):
            os.utime(base, None)
            return True, bdir, "cached"
        _prune(th)
        c = CONFIGS[config]
        if not os.path.exists(os.path.join(bdir, "build.ninja")):
            cmd = ["cmake", "-G", "Ninja", "-S", REPO, "-B", bdir,
                   "-DCMAKE_BUILD_TYPE=" + c["build_type"],
                   "-DCMAKE_CXX_FLAGS_RELWITHDEBINFO=" + c["cxxflags"],
                   "-DCMAKE_C_FLAGS_RELWITHDEBINFO=" + c["cxxflags"].replace("-w", ""),
                   "-DCOMPILE_TESTS=OFF", "-DCMAKE_POSITION_INDEPENDENT_CODE=ON",
                   "-DKENLM_MAX_ORDER=6"]
            rc, o, e = run(cmd, timeout=300)
            if rc != 0:
                return False, bdir, "cmake configure failed:\n" + (o + e)[-4000:]
        cmd = ["cmake", "--build", bdir, "-j", str(NPROC)]
        if targets:
            cmd += ["--target"] + list(targets)
        t0 = time.time()
        rc, o, e = run(cmd, timeout=timeout)
        if rc != 0:
            return False, bdir, "build failed:\n" + (o + e)[-6000:]
        open(stamp, "w").write("ok")
        log("  built /repo tree %s config=%s in %.0fs" % (th, config, time.time() - t0))
        return True, bdir, "built"
    finally:
        fcntl.flock(lock, fcntl.LOCK_UN)
        lock.close()


def harness(src, config="header", libs=False, extra=(), timeout=900, std="c++11"):
    """Compile a harness from /verif/harness against the working tree.
    config 'header': header-only (optionally with a few .cc files passed in extra), ASan+UBSan.
    libs=True: link against the cmake build of the given config ('tools' or 'asan').
    Returns (ok, exe, log)."""
    th = tree_hash()
    srcp = src if os.path.isabs(src) else os.path.join(VERIF, "harness", src)
    key = sha(th, open(srcp, "rb").read(), config, repr(libs), repr(extra), std)
    out = os.path.join(SCRATCH, "build", th, "harness")
    os.makedirs(out, exist_ok=True)
    exe = os.path.join(out, os.path.basename(src).rsplit(".", 1)[0] + "_" + key)
    if os.path.exists(exe):
        return True, exe, "cached"
    flags = ["-std=" + std, "-O1", "-g", "-w", "-UNDEBUG", "-D" + GUARD, "-DKENLM_MAX_ORDER=6",
             "-DHAVE_ZLIB", "-DHAVE_BZLIB", "-DHAVE_XZLIB", "-I", REPO, "-pthread"]
    san = ["-fsanitize=address,undefined", "-fno-sanitize=alignment", "-fno-sanitize-recover=all",
           "-fno-omit-frame-pointer"]
    link = []
    if libs:
        ok, bdir, lg = build(config)
        if not ok:
            return False, None, lg
        link = [os.path.join(bdir, "lib", "libkenlm.a"), os.path.join(bdir, "lib", "libkenlm_util.a"),
                "-lz", "-lbz2", "-llzma", "-lrt"]
        for extra_lib in ("libkenlm_builder.a", "libkenlm_filter.a", "libkenlm_interpolate.a"):
            pass
        if config == "asan":
            flags += san
    else:
        flags += san
    tmp = exe + ".tmp%d" % os.getpid()
    cmd = ["g++"] + flags + [srcp] + list(extra) + link + ["-o", tmp]
    rc, o, e = run(cmd, timeout=timeout)
    if rc != 0:
        return False, None, "harness %s does not compile against the current tree:\n%s" % (src, (o + e)[-5000:])
    os.replace(tmp, exe)
    return True, exe, "built"
