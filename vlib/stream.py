"""Line-protocol correspondence: run the same op lines through the C++ harness and the Lean
driver, diff canonical outputs, shrink a disagreement."""
import os

from .common import run, log


def run_lines(exe, lines, timeout=60, env=None, args=()):
    """Returns (rc, list of output lines, stderr)."""
    data = ("\n".join(lines) + "\n").encode()
    rc, o, e = run([exe] + list(args), timeout=timeout, input=data, env=env)
    return rc, o.splitlines(), e


def first_diff(a, b):
    n = min(len(a), len(b))
    for i in range(n):
        if a[i] != b[i]:
            return i
    if len(a) != len(b):
        return n
    return None


def both(harness_exe, driver_exe, lines, timeout=60, env=None):
    rc1, o1, e1 = run_lines(harness_exe, lines, timeout, env)
    rc2, o2, e2 = run_lines(driver_exe, lines, timeout)
    return (rc1, o1, e1), (rc2, o2, e2)


def disagree(harness_exe, driver_exe, lines, timeout=120):
    (rc1, o1, e1), (rc2, o2, e2) = both(harness_exe, driver_exe, lines, timeout)
    if rc1 != 0 or rc2 != 0:
        return True
    return first_diff(o1, o2) is not None


def ddmin(lines, fails, keep_prefix=0, max_tests=300):
    """Delta-debug a list of op lines (the first keep_prefix lines are kept)."""
    head, body = lines[:keep_prefix], lines[keep_prefix:]
    tests = 0
    n = 2
    while len(body) >= 2 and tests < max_tests:
        chunk = max(1, len(body) // n)
        reduced = False
        for i in range(0, len(body), chunk):
            cand = body[:i] + body[i + chunk:]
            tests += 1
            if cand and fails(head + cand):
                body = cand
                n = max(n - 1, 2)
                reduced = True
                break
            if tests >= max_tests:
                break
        if not reduced:
            if chunk == 1:
                break
            n = min(len(body), n * 2)
    return head + body
