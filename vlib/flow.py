"""The common skeleton of a check: regenerate -> lake build -> axiom audit (the proof
obligations), then the property-specific correspondence run."""
import re

from . import lean
from .common import log

TRUSTED_BASE = [
    "Lean 4.33 kernel (leanchecker re-check in thorough tier)",
    "axioms: at most propext, Classical.choice, Quot.sound (audited per theorem on every run)",
    "statements in lean/Properties/<id>.lean",
    "constant probe tools/probe_*.cc + vlib/lean.py regenerate()",
    "correspondence: harness/*.cc, lean/Driver/*.lean, checks/<id>.py comparator and generators",
    "g++ / libstdc++ / libc / kernel",
]


def proof_phase(ctx, pid, probe=None, probe_flags=(), targets=None, required=(), drivers=()):
    """Returns (problems, consts).  problems = list of strings naming each broken proof
    obligation (regeneration, build, audit)."""
    problems = []
    consts = {}
    if probe:
        ok, msg, consts = lean.regenerate(pid, probe, probe_flags)
        if not ok:
            problems.append("regeneration: " + msg)
        else:
            log("  [%s] constants regenerated (%s): %d values" % (pid, msg, len(consts)))
    tg = list(targets or ["Properties.%s" % pid]) + list(drivers)
    ok, out = lean.lake_build(tg)
    if not ok:
        errs = [l for l in out.splitlines() if re.search(r"error|✖|failed", l)]
        problems.append("lake build failed (a proof obligation no longer checks against the regenerated "
                        "constants / model): " + " | ".join(errs[:12])[:3000])
        ctx.cov["obligations"] = max(ctx.cov["obligations"], 1)
    else:
        problems += lean.audit(ctx, pid, required)
        if ctx.tier == "thorough":
            for m, rc, tail in lean.leanchecker(["Properties.%s" % pid]):
                ctx.cov.setdefault("leanchecker", []).append({"module": m, "rc": rc})
                if rc != 0:
                    problems.append("leanchecker rejects %s: %s" % (m, tail))
    ctx.cov["trusted_base"] = list(TRUSTED_BASE)
    if consts:
        ctx.cov["regenerated_constants"] = consts
    return problems, consts


def report_obligation_failures(ctx, problems, found_input):
    """Call after the failing-input search.  `found_input`: True if the search already
    reported a concrete violation (then the broken obligations are listed in it), else each
    broken obligation is reported with no-failing-input-found."""
    if not problems:
        return
    if found_input:
        log("  broken obligations (explained by the reported failing input): %s" % problems)
        return
    ctx.violation("proof obligation or correspondence no longer checks: " + problems[0][:300],
                  {"broken": problems}, no_input=True)
