"""Shared machinery for all property checks (see DESIGN.md §3).

Everything a check needs: paths, seeded PRNG, subprocess with timeout, evidence
writer (EVIDENCE.schema.json), violation / known-finding protocol.
"""
import hashlib
import json
import os
import random
import shutil
import subprocess
import sys
import time

VERIF = os.path.dirname(os.path.dirname(os.path.abspath(__file__)))
REPO = os.environ.get("VERIF_REPO", "/repo")
LEAN_DIR = os.path.join(VERIF, "lean")
SCRATCH = os.environ.get("VERIF_SCRATCH", "/var/tmp/kpu-kenlm-verif")
NPROC = os.cpu_count() or 4

ACCEPTED_AXIOMS = {"propext", "Classical.choice", "Quot.sound"}


def log(*a):
    print(*a, file=sys.stderr, flush=True)


def run(cmd, timeout=600, cwd=None, env=None, input=None, check=False, binary=False):
    """Run a command under a hard timeout.  Returns (rc, stdout, stderr).
    rc = 'timeout' on timeout, negative on signal (as subprocess)."""
    e = dict(os.environ)
    if env:
        e.update(env)
    try:
        p = subprocess.run(cmd, cwd=cwd, env=e, input=input, capture_output=True,
                           timeout=timeout, shell=isinstance(cmd, str))
        out, err = p.stdout, p.stderr
        if not binary:
            out = out.decode("utf-8", "replace")
            err = err.decode("utf-8", "replace")
        rc = p.returncode
    except subprocess.TimeoutExpired as ex:
        out = ex.stdout or b""
        err = ex.stderr or b""
        if not binary:
            out = out.decode("utf-8", "replace")
            err = err.decode("utf-8", "replace")
        rc = "timeout"
    if check and rc != 0:
        raise RuntimeError("command failed rc=%s: %s\n%s\n%s" % (rc, cmd, out[-4000:], err[-4000:]))
    return rc, out, err


def sha(*parts):
    h = hashlib.sha256()
    for p in parts:
        if isinstance(p, str):
            p = p.encode()
        h.update(p)
        h.update(b"\0")
    return h.hexdigest()[:16]


def scratch_dir(name):
    d = os.path.join(SCRATCH, name)
    os.makedirs(d, exist_ok=True)
    return d


def fresh_scratch(name):
    d = os.path.join(SCRATCH, name)
    shutil.rmtree(d, ignore_errors=True)
    os.makedirs(d)
    return d


class Finding(Exception):
    pass


class Ctx:
    """One run of one property check."""

    def __init__(self, pid, tier, seed):
        self.pid = pid
        self.tier = tier
        self.seed = seed
        self.rng = random.Random((seed * 1000003) ^ int(hashlib.md5(pid.encode()).hexdigest()[:8], 16))
        self.t0 = time.time()
        self.violations = []          # list of dict(replay=path, what=str, no_input=bool)
        self.known_hits = []          # list of (key, what)
        self.cov = {
            "evaluations": 0, "distinct_nontrivial": 0, "rule": "", "samples": [],
            "obligations": 0, "discharged": 0, "checker_cmd": "", "trusted_base": [],
        }
        self.assumptions = []
        self.notes = {}
        self._distinct = set()
        self.known = load_known(pid)
        self.replay_dir = os.path.join(VERIF, "replays", pid)

    # ---- coverage accounting -------------------------------------------------------
    def count(self, case_key=None, nontrivial=True, n=1):
        """Count one evaluated case.  case_key identifies distinct cases; nontrivial by
        the check's stated rule."""
        self.cov["evaluations"] += n
        if case_key is not None and nontrivial:
            k = sha(repr(case_key))
            if k not in self._distinct:
                self._distinct.add(k)
                self.cov["distinct_nontrivial"] += 1

    def sample(self, s, cap=6):
        if len(self.cov["samples"]) < cap:
            self.cov["samples"].append(s)

    def hist(self, name, key, n=1):
        h = self.cov.setdefault("distribution", {}).setdefault(name, {})
        h[str(key)] = h.get(str(key), 0) + n

    # ---- violation protocol --------------------------------------------------------
    def violation(self, what, replay_obj, key=None, no_input=False):
        """Report a violation unless `key` is a listed known finding."""
        if key is not None:
            for k in self.known:
                if k.get("status", "open") == "open" and k["key"] == key:
                    if (key, k["what"]) not in self.known_hits:
                        self.known_hits.append((key, k["what"]))
                    return False
        os.makedirs(self.replay_dir, exist_ok=True)
        body = dict(replay_obj)
        body.setdefault("property", self.pid)
        body.setdefault("what", what)
        body.setdefault("seed", self.seed)
        body.setdefault("tier", self.tier)
        body["no_failing_input_found"] = bool(no_input)
        name = sha(json.dumps(body, sort_keys=True, default=str)) + ".json"
        path = os.path.join(self.replay_dir, name)
        with open(path, "w") as f:
            json.dump(body, f, indent=1, default=str)
        self.violations.append({"replay": path, "what": what, "no_input": no_input})
        log("  !! violation: %s -> %s" % (what, path))
        return True

    # ---- finish --------------------------------------------------------------------
    def finish(self, level="proof"):
        wall = time.time() - self.t0
        cov = self.cov
        cov["known_findings_hit"] = [k for k, _ in self.known_hits]
        # keep the evidence file valid against EVIDENCE.schema.json whatever a check stored
        if "exhaustive" in cov and not isinstance(cov["exhaustive"], bool):
            cov["exhaustive_detail"] = cov.pop("exhaustive")
        for k in ("evaluations", "distinct_nontrivial", "obligations", "discharged", "states", "transitions",
                  "traces_validated_against_impl", "programs", "disagreements_checked"):
            if k in cov and not isinstance(cov[k], int):
                try:
                    cov[k] = int(cov[k])
                except (TypeError, ValueError):
                    cov[k + "_detail"] = cov.pop(k)
        if not isinstance(cov.get("samples"), list):
            cov["samples"] = [cov.get("samples")]
        if not cov["samples"]:
            cov["samples"] = ["(no case was generated in this run)"]
        cov["trusted_base"] = [str(x) for x in cov.get("trusted_base", [])]
        self.assumptions = [str(x) for x in self.assumptions]
        cov.update(self.notes)
        ev = {
            "property_id": self.pid,
            "tier": self.tier,
            "seed": self.seed,
            "level": level,
            "coverage": cov,
            "assumptions": self.assumptions,
            "wall_s": round(wall, 2),
            "violations": len(self.violations),
        }
        os.makedirs(os.path.join(VERIF, "evidence"), exist_ok=True)
        with open(os.path.join(VERIF, "evidence", self.pid + ".json"), "w") as f:
            json.dump(ev, f, indent=1, default=str)
        for key, what in self.known_hits:
            print("KNOWN-FINDING: property=%s %s [key=%s]" % (self.pid, what, key))
        for v in self.violations:
            tail = " no-failing-input-found" if v["no_input"] else ""
            print("VIOLATION property=%s replay=%s%s" % (self.pid, v["replay"], tail))
        sys.stdout.flush()
        log("[%s] %s tier=%s seed=%d: %d evaluations, %d distinct non-trivial, %d/%d obligations, %d violations, %.1fs" % (
            self.pid, "FAIL" if self.violations else "ok", self.tier, self.seed, cov["evaluations"],
            cov["distinct_nontrivial"], cov["discharged"], cov["obligations"], len(self.violations), wall))
        return 1 if self.violations else 0


def load_known(pid):
    path = os.path.join(VERIF, "known_findings.jsonl")
    out = []
    if os.path.exists(path):
        for line in open(path):
            line = line.strip()
            if not line or line.startswith("#"):
                continue
            try:
                o = json.loads(line)
            except ValueError:
                continue
            if o.get("property") == pid:
                out.append(o)
    return out
