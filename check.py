#!/usr/bin/env python3
"""python3 check.py <ID> [--tier quick|thorough] [--replay file]

exit 0  the property held on everything explored (KNOWN-FINDING lines allowed)
exit 1  + `VIOLATION property=<ID> replay=<path>` otherwise
"""
import argparse
import importlib
import os
import sys
import traceback

# Every random choice must derive from VERIF_SEED alone: pin Python's string-hash randomisation so that
# iteration over sets of strings/tuples in the generators is the same on every run (replayable cases).
if os.environ.get("PYTHONHASHSEED") != "0":
    os.environ["PYTHONHASHSEED"] = "0"
    os.execv(sys.executable, [sys.executable] + sys.argv)

sys.path.insert(0, os.path.dirname(os.path.abspath(__file__)))
from vlib.common import Ctx, log  # noqa: E402


def main():
    ap = argparse.ArgumentParser()
    ap.add_argument("pid")
    ap.add_argument("--tier", default=os.environ.get("VERIF_TIER", "quick"), choices=["quick", "thorough"])
    ap.add_argument("--replay", default=None)
    a = ap.parse_args()
    seed = int(os.environ.get("VERIF_SEED", "1") or 1)
    ctx = Ctx(a.pid, a.tier, seed)
    mod = importlib.import_module("checks." + a.pid)
    level = getattr(mod, "LEVEL", "proof")
    if level not in ("exploration", "fault_enumeration", "model_checking", "proof", "translation_validation", "other"):
        level = "proof"
    try:
        if a.replay:
            rc = mod.replay(ctx, a.replay)
            sys.exit(rc)
        mod.run(ctx)
    except Exception:
        tb = traceback.format_exc()
        log(tb)
        ctx.violation("check machinery raised an exception (correspondence could not be established)",
                      {"traceback": tb}, no_input=True)
    sys.exit(ctx.finish(level))


if __name__ == "__main__":
    main()
